"""C17 driver: runs the C17 workload of the harness under each memory monitor and merges the
verdicts into evidence/C17.json.

quick:    guard-allocator build (full workload) + Miri shards (default borrow model)
thorough: + Miri tree-borrows pass, more Miri seeds, AddressSanitizer/LeakSanitizer,
          valgrind memcheck, ThreadSanitizer (parallel sort)
"""
import concurrent.futures
import json
import os
import re
import subprocess
import time

MIRI_FLAGS = "-Zmiri-disable-isolation -Zmiri-strict-provenance -Zmiri-symbolic-alignment-check"


def miri_build(ck):
    """Builds the Miri flavour (no zstd: Miri cannot cross C FFI). Returns (cmd prefix, env) or None."""
    md = ck.manifest_dir()
    tdir = os.path.join(ck.TARGET_ROOT, ck.KEY + "-miri")
    env = dict(ck.ENV)
    env["MIRIFLAGS"] = MIRI_FLAGS
    base = ["cargo", "+nightly", "miri", "run", "--manifest-path", os.path.join(md, "Cargo.toml"), "--target-dir", tdir, "--offline", "--no-default-features", "--quiet", "--"]
    # warm-up: builds sysroot + crate and runs a no-op
    t0 = time.time()
    p = subprocess.run(base + ["NOOP", "quick"], env=env, stdout=subprocess.PIPE, stderr=subprocess.STDOUT, text=True)
    if "unknown check" not in p.stdout:
        ck.log(p.stdout[-4000:])
        ck.log("INCONCLUSIVE Miri build failed")
        return None
    if time.time() - t0 > 5:
        ck.log("[build miri: %.0fs]" % (time.time() - t0))
    return base, env


def miri_shard(ck, base, env, tier, seed, shard, flags, out):
    e = dict(env)
    e["MIRIFLAGS"] = MIRI_FLAGS + (" " + flags if flags else "")
    args = ["C17", tier, "--seed", str(seed * 1000 + shard), "--part", "miri", "--build", "miri" + ("-tree-borrows" if "tree" in flags else ""), "--out", out, "--known", ck.KNOWN, "--replay-dir", ck.REPLAYS, "--threads", "1"]
    t0 = time.time()
    try:
        p = subprocess.run(base + args, env=e, cwd=ck.VERIF, stdout=subprocess.PIPE, stderr=subprocess.STDOUT, text=True, timeout=3000)
        out_text, code = p.stdout, p.returncode
    except subprocess.TimeoutExpired as ex:
        out_text, code = (ex.stdout or b"").decode(errors="replace") if isinstance(ex.stdout, bytes) else (ex.stdout or ""), 124
    return shard, code, out_text, time.time() - t0


def classify_miri(code, text):
    """(verdict, report) for one Miri process."""
    if "Undefined Behavior" in text or re.search(r"error: .*(memory leaked|data race|unsupported operation|deadlock)", text):
        m = re.search(r"error: (.*)", text)
        return "violated", (m.group(1) if m else "Miri error")[:500]
    if code == 0:
        return "held", ""
    if code == 1 and "VIOLATION" in text:
        return "violated", "harness oracle"
    return "inconclusive", "exit %s" % code


def run(ck, tier, seed, scale, t0):
    parts = []  # (name, code, evidence)
    sanitizer_summary = {}
    codes = []

    # ---- guard allocator build (full workload)
    binp = ck.build("guard")
    part_out = os.path.join(ck.TARGET_ROOT, "parts", "%s-C17-guard.json" % ck.KEY)
    os.makedirs(os.path.dirname(part_out), exist_ok=True)
    if binp is None:
        parts.append(("guard", 2, None))
    else:
        if os.path.exists(part_out):
            os.remove(part_out)
        code, out = ck.run_vh(binp, ["C17", tier, "--seed", str(seed), "--out", part_out, "--build", "guard", "--known", ck.KNOWN, "--replay-dir", ck.REPLAYS, "--scale", scale], ck.WATCHDOG[tier])
        print(out, end="", flush=True)
        if code not in (0, 1, 2):
            code = ck.classify_crash("C17", "guard", seed, code, out)
        parts.append(("guard", code, ck.load(part_out)))
    codes.append(parts[-1][1])

    # ---- Miri shards
    mb = miri_build(ck)
    n_shards = 16 if tier == "quick" else 64
    passes = [("", "miri")] if tier == "quick" else [("", "miri"), ("-Zmiri-tree-borrows", "miri-tree-borrows")]
    if mb is None:
        codes.append(2)
        sanitizer_summary["miri"] = {"verdict": "inconclusive", "reason": "build failed"}
    else:
        base, env = mb
        for flags, pname in passes:
            n = n_shards if pname == "miri" else 32
            outs = [os.path.join(ck.TARGET_ROOT, "parts", "%s-C17-%s-%d.json" % (ck.KEY, pname, i)) for i in range(n)]
            for o in outs:
                if os.path.exists(o):
                    os.remove(o)
            results = []
            with concurrent.futures.ThreadPoolExecutor(max_workers=16) as ex:
                futs = [ex.submit(miri_shard, ck, base, env, tier, seed, i, flags, outs[i]) for i in range(n)]
                for f in futs:
                    results.append(f.result())
            reports = []
            evals = 0
            distinct = 0
            worst_code = 0
            walls = []
            counts = {}
            for shard, code, text, wall in results:
                verdict, rep = classify_miri(code, text)
                walls.append(wall)
                ev = ck.load(outs[shard])
                if ev:
                    evals += ev["coverage"].get("evaluations", 0)
                    distinct += ev["coverage"].get("distinct_nontrivial", 0)
                    for k, v in ev["coverage"].get("observed_counts", {}).items():
                        counts[k] = counts.get(k, 0) + v
                if verdict == "violated":
                    worst_code = 1
                    reports.append({"shard": shard, "report": rep})
                    rp = os.path.join(ck.REPLAYS, "C17-%s-%d-%d.log" % (pname, seed, shard))
                    os.makedirs(ck.REPLAYS, exist_ok=True)
                    with open(rp, "w") as fh:
                        fh.write("replay: MIRIFLAGS='%s %s' cargo +nightly miri run ... -- C17 %s --seed %d --part miri --threads 1\n\n" % (MIRI_FLAGS, flags, tier, seed * 1000 + shard))
                        fh.write(text[-20000:])
                    if "VIOLATION property=C17" not in text:
                        print("VIOLATION property=C17 replay=%s" % rp)
                        print("  signature=miri-report %s" % rep)
                    else:
                        print(text[-3000:])
                elif verdict == "inconclusive" and worst_code == 0:
                    worst_code = 2
                    print("INCONCLUSIVE Miri shard %d: %s\n%s" % (shard, rep, text[-1500:]))
            # coverage obligations of the Miri pass, on the totals over all processes
            need = ["sorter_inserts:observed:reallocation", "sorter_inserts:observed:spill", "sorter_inserts:observed:buffer-exactly-full", "sorter_inserts:oversized", "sorter_inserts:zero-length", "reader_ops_with_full_read_of_borrowed_slices", "merger_borrow_scenarios"]
            unmet = [k for k in need if counts.get(k, 0) == 0]
            if unmet and worst_code == 0:
                worst_code = 2
                print("INCONCLUSIVE property=C17 %s: coverage obligation not met over all processes: %s" % (pname, ", ".join(unmet)))
            sanitizer_summary[pname] = {
                "processes": n,
                "flags": (MIRI_FLAGS + " " + flags).strip(),
                "reports": reports,
                "report_count": len(reports),
                "scenarios_executed": evals,
                "distinct_nontrivial": distinct,
                "observed_counts": counts,
                "wall_s_per_process_max": round(max(walls), 1) if walls else 0,
            }
            codes.append(worst_code)
            ck.log("[C17 %s: %d processes, %d scenarios, %d reports, slowest %.0fs]" % (pname, n, evals, len(reports), max(walls) if walls else 0))
            parts.append((pname, worst_code, {"coverage": {"evaluations": evals, "distinct_nontrivial": distinct, "verdict": ["held", "violated", "inconclusive"][worst_code], "observed_counts": counts}, "violations": len(reports), "wall_s": max(walls) if walls else 0}))

    if tier == "thorough":
        for bname, prefix, envx, label in [
            ("asan", None, {"ASAN_OPTIONS": "detect_leaks=1:halt_on_error=1:abort_on_error=0:exitcode=66"}, "asan"),
            ("tsan", None, {"TSAN_OPTIONS": "halt_on_error=1:exitcode=66"}, "tsan"),
            ("rel", ["valgrind", "--error-exitcode=66", "--leak-check=full", "--show-leak-kinds=definite", "--errors-for-leak-kinds=definite", "-q"], {}, "valgrind"),
        ]:
            binp = ck.build(bname)
            out_p = os.path.join(ck.TARGET_ROOT, "parts", "%s-C17-%s.json" % (ck.KEY, label))
            if os.path.exists(out_p):
                os.remove(out_p)
            if binp is None:
                codes.append(2)
                sanitizer_summary[label] = {"verdict": "inconclusive", "reason": "build failed"}
                continue
            sc = {"asan": "100", "tsan": "60", "valgrind": "8"}[label]
            envx = dict(envx)
            if label == "valgrind":
                envx["VERIF_THREADS"] = "4"
            code, out = ck.run_vh(binp, ["C17", tier, "--seed", str(seed), "--part", "sanitizer", "--out", out_p, "--build", label, "--known", ck.KNOWN, "--replay-dir", ck.REPLAYS, "--scale", sc], 3 * 3600, env_extra=envx, prefix=prefix)
            tail = out[-3000:]
            reports = len(re.findall(r"ERROR: (AddressSanitizer|LeakSanitizer)|WARNING: ThreadSanitizer|== ?ERROR SUMMARY: [1-9]", out))
            ev = ck.load(out_p)
            if code == 66 or reports:
                rp = os.path.join(ck.REPLAYS, "C17-%s-%d.log" % (label, seed))
                os.makedirs(ck.REPLAYS, exist_ok=True)
                with open(rp, "w") as fh:
                    fh.write(out[-40000:])
                print("VIOLATION property=C17 replay=%s" % rp)
                print("  signature=%s-report" % label)
                c = 1
            elif code in (0, 1):
                print(tail if code == 1 else out.strip().splitlines()[-1] if out.strip() else "")
                c = code
            else:
                print("INCONCLUSIVE %s run ended with status %s\n%s" % (label, code, tail))
                c = 2
            codes.append(c)
            sanitizer_summary[label] = {"exit": code, "report_count": reports, "scenarios_executed": (ev or {}).get("coverage", {}).get("evaluations")}
            parts.append((label, c, ev))

    # ---- merge
    ck.merge_parts("C17", tier, seed, parts, t0)
    final = os.path.join(ck.EVIDENCE, "C17.json")
    ev = ck.load(final)
    if ev is not None:
        ev["coverage"]["sanitizer"] = sanitizer_summary
        ev["coverage"]["monitors_run"] = [p[0] for p in parts]
        with open(final, "w") as f:
            json.dump(ev, f, indent=1)
    code = ck.worst(codes)
    if code == 0 and ev is None:
        ck.log("INCONCLUSIVE no evidence written for C17")
        code = 2
    return code
