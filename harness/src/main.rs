//! `vh` — the verification harness binary. One sub-check per property.
//!
//!   vh <ID> <quick|thorough> [--seed N] [--out FILE] [--build NAME] [--known FILE]
//!      [--replay-dir DIR] [--only STREAM:IDX] [--part NAME]

#![allow(clippy::type_complexity, clippy::too_many_arguments)]

mod checks;
mod cur;
mod decoder;
mod gen;
mod io_mon;
mod json;
mod merge_mon;
mod model;
mod prng;
mod verdict;
#[cfg(feature = "guard-alloc")]
mod alloc_mon;

use verdict::{Ctx, Tier};

#[cfg(feature = "guard-alloc")]
#[global_allocator]
static GLOBAL: alloc_mon::GuardAlloc = alloc_mon::GuardAlloc;

fn main() {
    let args: Vec<String> = std::env::args().collect();
    if args.len() < 3 {
        eprintln!("usage: vh <ID> <quick|thorough> [--seed N] [--out FILE] [--build NAME] [--known FILE] [--replay-dir DIR] [--only STREAM:IDX] [--part NAME]");
        std::process::exit(2);
    }
    let id = args[1].clone();
    let tier = match args[2].as_str() {
        "quick" => Tier::Quick,
        "thorough" => Tier::Thorough,
        t => {
            eprintln!("unknown tier {}", t);
            std::process::exit(2);
        }
    };
    let mut seed = 1u64;
    let mut ctx_out = None;
    let mut build = String::from("unknown");
    let mut known = None;
    let mut replay_dir = None;
    let mut only = None;
    let mut part = String::new();
    let mut scale = 100u64;
    let mut threads: Option<usize> = None;
    let mut i = 3;
    while i < args.len() {
        let val = args.get(i + 1).cloned().unwrap_or_default();
        match args[i].as_str() {
            "--seed" => seed = val.parse().unwrap_or(1),
            "--out" => ctx_out = Some(val),
            "--build" => build = val,
            "--known" => known = Some(val),
            "--replay-dir" => replay_dir = Some(val),
            "--part" => part = val,
            "--scale" => scale = val.parse().unwrap_or(100),
            "--threads" => threads = val.parse().ok(),
            "--only" => {
                let mut it = val.rsplitn(2, ':');
                let idx = it.next().and_then(|s| s.parse().ok()).unwrap_or(0);
                let stream = it.next().unwrap_or("").to_string();
                only = Some((stream, idx));
            }
            a => {
                eprintln!("unknown argument {}", a);
                std::process::exit(2);
            }
        }
        i += 2;
    }
    verdict::install_panic_hook();
    let mut ctx = Ctx::new(&id, tier, seed);
    ctx.build = build;
    ctx.out = ctx_out.map(Into::into);
    ctx.only = only;
    ctx.scale = scale;
    if let Some(t) = threads {
        ctx.threads = t.max(1);
    }
    if let Some(d) = replay_dir {
        ctx.replay_dir = d.into();
    }
    if let Some(k) = known {
        ctx.load_known(&k);
    }
    let code = checks::run(&ctx, &part);
    std::process::exit(code);
}
