//! Minimal JSON value, serializer and parser (no external crate so the same code runs under Miri).

use std::collections::BTreeMap;
use std::fmt::Write;

#[derive(Clone, Debug, PartialEq)]
pub enum J {
    Null,
    Bool(bool),
    Int(i128),
    Num(f64),
    Str(String),
    Arr(Vec<J>),
    Obj(BTreeMap<String, J>),
}

impl J {
    pub fn obj() -> J {
        J::Obj(BTreeMap::new())
    }
    pub fn set(mut self, k: &str, v: impl Into<J>) -> J {
        if let J::Obj(m) = &mut self {
            m.insert(k.to_string(), v.into());
        }
        self
    }
    pub fn put(&mut self, k: &str, v: impl Into<J>) {
        if let J::Obj(m) = self {
            m.insert(k.to_string(), v.into());
        }
    }
    pub fn get(&self, k: &str) -> Option<&J> {
        match self {
            J::Obj(m) => m.get(k),
            _ => None,
        }
    }
    pub fn as_i(&self) -> Option<i128> {
        match self {
            J::Int(i) => Some(*i),
            J::Num(f) => Some(*f as i128),
            _ => None,
        }
    }
    pub fn as_str(&self) -> Option<&str> {
        match self {
            J::Str(s) => Some(s),
            _ => None,
        }
    }
    pub fn to_string(&self) -> String {
        let mut s = String::new();
        self.write(&mut s, 0);
        s
    }
    fn write(&self, out: &mut String, ind: usize) {
        match self {
            J::Null => out.push_str("null"),
            J::Bool(b) => out.push_str(if *b { "true" } else { "false" }),
            J::Int(i) => {
                let _ = write!(out, "{}", i);
            }
            J::Num(f) => {
                if f.is_finite() {
                    let _ = write!(out, "{:.3}", f);
                } else {
                    out.push_str("null");
                }
            }
            J::Str(s) => write_str(out, s),
            J::Arr(a) => {
                if a.is_empty() {
                    out.push_str("[]");
                    return;
                }
                let simple = a.iter().all(|x| !matches!(x, J::Arr(_) | J::Obj(_)));
                out.push('[');
                for (i, x) in a.iter().enumerate() {
                    if i > 0 {
                        out.push(',');
                    }
                    if !simple {
                        out.push('\n');
                        out.push_str(&" ".repeat(ind + 1));
                    } else if i > 0 {
                        out.push(' ');
                    }
                    x.write(out, ind + 1);
                }
                if !simple {
                    out.push('\n');
                    out.push_str(&" ".repeat(ind));
                }
                out.push(']');
            }
            J::Obj(m) => {
                if m.is_empty() {
                    out.push_str("{}");
                    return;
                }
                out.push('{');
                for (i, (k, v)) in m.iter().enumerate() {
                    if i > 0 {
                        out.push(',');
                    }
                    out.push('\n');
                    out.push_str(&" ".repeat(ind + 1));
                    write_str(out, k);
                    out.push_str(": ");
                    v.write(out, ind + 1);
                }
                out.push('\n');
                out.push_str(&" ".repeat(ind));
                out.push('}');
            }
        }
    }
}

fn write_str(out: &mut String, s: &str) {
    out.push('"');
    for c in s.chars() {
        match c {
            '"' => out.push_str("\\\""),
            '\\' => out.push_str("\\\\"),
            '\n' => out.push_str("\\n"),
            '\r' => out.push_str("\\r"),
            '\t' => out.push_str("\\t"),
            c if (c as u32) < 0x20 => {
                let _ = write!(out, "\\u{:04x}", c as u32);
            }
            c => out.push(c),
        }
    }
    out.push('"');
}

impl From<&str> for J {
    fn from(s: &str) -> J {
        J::Str(s.to_string())
    }
}
impl From<String> for J {
    fn from(s: String) -> J {
        J::Str(s)
    }
}
impl From<bool> for J {
    fn from(b: bool) -> J {
        J::Bool(b)
    }
}
impl From<f64> for J {
    fn from(f: f64) -> J {
        J::Num(f)
    }
}
macro_rules! from_int {
    ($($t:ty),*) => {$(impl From<$t> for J { fn from(i: $t) -> J { J::Int(i as i128) } })*};
}
from_int!(u8, u16, u32, u64, usize, i32, i64, i128);
impl<T: Into<J>> From<Vec<T>> for J {
    fn from(v: Vec<T>) -> J {
        J::Arr(v.into_iter().map(Into::into).collect())
    }
}
impl<T: Into<J>> From<Option<T>> for J {
    fn from(v: Option<T>) -> J {
        match v {
            Some(x) => x.into(),
            None => J::Null,
        }
    }
}

/// Hex rendering of bytes, shortened in the middle when long.
pub fn hex(b: &[u8]) -> String {
    fn h(b: &[u8]) -> String {
        let mut s = String::with_capacity(b.len() * 2);
        for x in b {
            let _ = write!(s, "{:02x}", x);
        }
        s
    }
    if b.len() <= 24 {
        h(b)
    } else {
        format!("{}..{}(len={})", h(&b[..10]), h(&b[b.len() - 6..]), b.len())
    }
}

pub fn hex_opt(e: &Option<(Vec<u8>, Vec<u8>)>) -> String {
    match e {
        Some((k, v)) => format!("({} => {})", hex(k), hex(v)),
        None => "None".to_string(),
    }
}

// ---------------------------------------------------------------- parser (for merged evidence)

pub fn parse(s: &str) -> Result<J, String> {
    let b = s.as_bytes();
    let mut p = 0usize;
    let v = parse_val(b, &mut p)?;
    skip_ws(b, &mut p);
    if p != b.len() {
        return Err(format!("trailing data at {}", p));
    }
    Ok(v)
}

fn skip_ws(b: &[u8], p: &mut usize) {
    while *p < b.len() && (b[*p] as char).is_ascii_whitespace() {
        *p += 1;
    }
}

fn parse_val(b: &[u8], p: &mut usize) -> Result<J, String> {
    skip_ws(b, p);
    if *p >= b.len() {
        return Err("eof".into());
    }
    match b[*p] {
        b'{' => {
            *p += 1;
            let mut m = BTreeMap::new();
            loop {
                skip_ws(b, p);
                if *p < b.len() && b[*p] == b'}' {
                    *p += 1;
                    break;
                }
                let k = match parse_val(b, p)? {
                    J::Str(s) => s,
                    _ => return Err("key".into()),
                };
                skip_ws(b, p);
                if *p >= b.len() || b[*p] != b':' {
                    return Err("colon".into());
                }
                *p += 1;
                let v = parse_val(b, p)?;
                m.insert(k, v);
                skip_ws(b, p);
                if *p < b.len() && b[*p] == b',' {
                    *p += 1;
                }
            }
            Ok(J::Obj(m))
        }
        b'[' => {
            *p += 1;
            let mut a = Vec::new();
            loop {
                skip_ws(b, p);
                if *p < b.len() && b[*p] == b']' {
                    *p += 1;
                    break;
                }
                a.push(parse_val(b, p)?);
                skip_ws(b, p);
                if *p < b.len() && b[*p] == b',' {
                    *p += 1;
                }
            }
            Ok(J::Arr(a))
        }
        b'"' => {
            *p += 1;
            let mut s = String::new();
            while *p < b.len() && b[*p] != b'"' {
                if b[*p] == b'\\' {
                    *p += 1;
                    match b.get(*p) {
                        Some(b'n') => s.push('\n'),
                        Some(b't') => s.push('\t'),
                        Some(b'r') => s.push('\r'),
                        Some(b'u') => {
                            let h = std::str::from_utf8(&b[*p + 1..*p + 5]).map_err(|e| e.to_string())?;
                            let c = u32::from_str_radix(h, 16).map_err(|e| e.to_string())?;
                            s.push(char::from_u32(c).unwrap_or('?'));
                            *p += 4;
                        }
                        Some(c) => s.push(*c as char),
                        None => return Err("esc".into()),
                    }
                    *p += 1;
                } else {
                    let start = *p;
                    while *p < b.len() && b[*p] != b'"' && b[*p] != b'\\' {
                        *p += 1;
                    }
                    s.push_str(std::str::from_utf8(&b[start..*p]).map_err(|e| e.to_string())?);
                }
            }
            *p += 1;
            Ok(J::Str(s))
        }
        b't' => {
            *p += 4;
            Ok(J::Bool(true))
        }
        b'f' => {
            *p += 5;
            Ok(J::Bool(false))
        }
        b'n' => {
            *p += 4;
            Ok(J::Null)
        }
        _ => {
            let start = *p;
            while *p < b.len() && (b[*p] == b'-' || b[*p] == b'+' || b[*p] == b'.' || b[*p] == b'e' || b[*p] == b'E' || b[*p].is_ascii_digit()) {
                *p += 1;
            }
            let t = std::str::from_utf8(&b[start..*p]).map_err(|e| e.to_string())?;
            if let Ok(i) = t.parse::<i128>() {
                Ok(J::Int(i))
            } else {
                t.parse::<f64>().map(J::Num).map_err(|e| format!("num {:?}: {}", t, e))
            }
        }
    }
}
