//! Cursor operations as data, applied to the real `ReaderCursor` under `guarded`.

use std::io::{Read, Seek};

use grenad::ReaderCursor;

use crate::json::hex;
use crate::verdict::guarded;

pub type Entry = (Vec<u8>, Vec<u8>);

#[derive(Clone, Debug, PartialEq, Eq)]
pub enum Op {
    First,
    Last,
    Next,
    Prev,
    Ge(Vec<u8>),
    Le(Vec<u8>),
    Eq(Vec<u8>),
    Reset,
    /// `cursor.into_reader().into_cursor()`: a brand-new cursor over the same reader
    Reopen,
    Current,
}

impl Op {
    pub fn render(&self) -> String {
        match self {
            Op::First => "first".into(),
            Op::Last => "last".into(),
            Op::Next => "next".into(),
            Op::Prev => "prev".into(),
            Op::Ge(q) => format!("GE({})", hex(q)),
            Op::Le(q) => format!("LE({})", hex(q)),
            Op::Eq(q) => format!("EQ({})", hex(q)),
            Op::Reset => "reset".into(),
            Op::Reopen => "into_reader.into_cursor".into(),
            Op::Current => "current".into(),
        }
    }
    pub fn kind(&self) -> &'static str {
        match self {
            Op::First => "first",
            Op::Last => "last",
            Op::Next => "next",
            Op::Prev => "prev",
            Op::Ge(_) => "GE",
            Op::Le(_) => "LE",
            Op::Eq(_) => "EQ",
            Op::Reset => "reset",
            Op::Reopen => "reopen",
            Op::Current => "current",
        }
    }
    pub fn is_absolute(&self) -> bool {
        matches!(self, Op::First | Op::Last | Op::Ge(_) | Op::Le(_) | Op::Eq(_))
    }
}

fn own(e: Option<(&[u8], &[u8])>) -> Option<Entry> {
    e.map(|(k, v)| (k.to_vec(), v.to_vec()))
}

/// Applies one operation; `Err` is "error: .." (an `Err` from grenad) or "panic: ..".
pub fn apply<R: Read + Seek>(c: &mut ReaderCursor<R>, op: &Op) -> Result<Option<Entry>, String> {
    let r = guarded(|| -> Result<Option<Entry>, String> {
        let e = |e: grenad::Error| format!("error: {}", e);
        Ok(match op {
            Op::First => own(c.move_on_first().map_err(e)?),
            Op::Last => own(c.move_on_last().map_err(e)?),
            Op::Next => own(c.move_on_next().map_err(e)?),
            Op::Prev => own(c.move_on_prev().map_err(e)?),
            Op::Ge(q) => own(c.move_on_key_greater_than_or_equal_to(q).map_err(e)?),
            Op::Le(q) => own(c.move_on_key_lower_than_or_equal_to(q).map_err(e)?),
            Op::Eq(q) => own(c.move_on_key_equal_to(q).map_err(e)?),
            Op::Reset => {
                c.reset();
                None
            }
            Op::Reopen => {
                // the cursor is moved out and a new one built from the reader it hands back; neither step
                // does I/O or can fail short of a panic, which would leave `c` moved-out: abort in that case
                struct AbortOnUnwind;
                impl Drop for AbortOnUnwind {
                    fn drop(&mut self) {
                        if std::thread::panicking() {
                            eprintln!("panic inside into_reader()/into_cursor(): aborting");
                            std::process::abort();
                        }
                    }
                }
                let bomb = AbortOnUnwind;
                unsafe {
                    let old = std::ptr::read(c as *const ReaderCursor<R>);
                    match old.into_reader().into_cursor() {
                        Ok(new) => std::ptr::write(c as *mut ReaderCursor<R>, new),
                        Err(er) => {
                            eprintln!("into_cursor failed on a reader that had a cursor before: {}", er);
                            std::process::abort();
                        }
                    }
                }
                std::mem::forget(bomb);
                None
            }
            Op::Current => own(c.current()),
        })
    });
    match r {
        Ok(x) => x,
        Err(p) => Err(format!("panic: {}", p)),
    }
}

/// Forward scan with `move_on_next` until `None` (bounded by `limit` steps).
pub fn scan_forward<R: Read + Seek>(c: &mut ReaderCursor<R>, limit: usize) -> Result<Vec<Entry>, String> {
    let mut out = Vec::new();
    loop {
        match apply(c, &Op::Next)? {
            Some(e) => out.push(e),
            None => return Ok(out),
        }
        if out.len() > limit {
            return Err(format!("scan yields more than {} entries", limit));
        }
    }
}

pub fn scan_backward<R: Read + Seek>(c: &mut ReaderCursor<R>, limit: usize) -> Result<Vec<Entry>, String> {
    let mut out = Vec::new();
    loop {
        match apply(c, &Op::Prev)? {
            Some(e) => out.push(e),
            None => return Ok(out),
        }
        if out.len() > limit {
            return Err(format!("scan yields more than {} entries", limit));
        }
    }
}

/// First index at which two entry lists differ, rendered.
pub fn first_diff(expected: &[Entry], got: &[Entry]) -> Option<String> {
    let n = expected.len().min(got.len());
    for i in 0..n {
        if expected[i] != got[i] {
            return Some(format!(
                "entry #{}: expected ({} => {}), got ({} => {})",
                i,
                hex(&expected[i].0),
                hex(&expected[i].1),
                hex(&got[i].0),
                hex(&got[i].1)
            ));
        }
    }
    if expected.len() != got.len() {
        return Some(format!("expected {} entries, got {}", expected.len(), got.len()));
    }
    None
}
