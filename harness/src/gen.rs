//! Generators: key sets, values, writer configurations, probe sets; and building files with the
//! real writer.

use std::num::NonZeroUsize;

use grenad::{CompressionType, Writer, WriterBuilder};

use crate::json::{hex, J};
use crate::prng::Rng;
use crate::verdict::guarded;

pub type Entry = (Vec<u8>, Vec<u8>);

pub const CODECS: [CompressionType; 6] = [
    CompressionType::None,
    CompressionType::Snappy,
    CompressionType::SnappyPre05,
    CompressionType::Zlib,
    CompressionType::Lz4,
    CompressionType::Zstd,
];

/// Codecs usable in this build (zstd is compiled out under Miri).
pub fn codecs() -> Vec<CompressionType> {
    CODECS.iter().copied().filter(|c| cfg!(feature = "zstd") || *c != CompressionType::Zstd).collect()
}

pub fn codec_name(c: CompressionType) -> &'static str {
    match c {
        CompressionType::None => "none",
        CompressionType::Snappy => "snappy",
        CompressionType::SnappyPre05 => "snappy-pre05",
        CompressionType::Zlib => "zlib",
        CompressionType::Lz4 => "lz4",
        CompressionType::Zstd => "zstd",
    }
}

#[derive(Clone, Debug)]
pub struct WCfg {
    pub codec: CompressionType,
    pub level: u32,
    /// `None`: the builder method is not called (library default).
    pub block_size: Option<usize>,
    pub interval: Option<usize>,
    pub levels: Option<u8>,
}

impl WCfg {
    pub fn plain() -> WCfg {
        WCfg { codec: CompressionType::None, level: 0, block_size: None, interval: None, levels: None }
    }
    pub fn eff_block_size(&self) -> usize {
        self.block_size.map(|b| b.max(1024)).unwrap_or(8192)
    }
    pub fn eff_interval(&self) -> usize {
        self.interval.unwrap_or(8)
    }
    pub fn eff_levels(&self) -> usize {
        self.levels.unwrap_or(0) as usize
    }
    pub fn render(&self) -> String {
        format!(
            "codec={} level={} block_size={:?} interval={:?} index_levels={:?}",
            codec_name(self.codec),
            self.level,
            self.block_size,
            self.interval,
            self.levels
        )
    }
    pub fn builder(&self) -> WriterBuilder {
        // The setters are independent and "last call wins": for two thirds of the configurations
        // (chosen by a hash of the configuration) they are called in a shuffled order, and in one
        // third each is first called with a decoy value, so that order- or history-dependent
        // builders show.
        let h = crate::prng::hash_bytes(0xB1D, self.render().as_bytes());
        let mut steps: Vec<u8> = (0..5).collect();
        let mut rng = Rng::new(h);
        if h % 3 != 0 {
            rng.shuffle(&mut steps);
        }
        let decoy = h % 3 == 1;
        let mut b = Writer::builder();
        if decoy {
            b.compression_type(*rng.pick(&codecs()));
            b.compression_level(7);
            b.block_size(*rng.pick(&[0usize, 16, 3000, 65536, 1 << 20]));
            b.index_key_interval(NonZeroUsize::new(*rng.pick(&[1usize, 5, 100])).unwrap());
            b.index_levels(*rng.pick(&[0u8, 1, 4]));
            // a configuration that leaves a setting at its default cannot undo a decoy: only
            // settings that are explicitly given below are decoyed
            let mut fresh = Writer::builder();
            if self.block_size.is_none() || self.interval.is_none() || self.levels.is_none() {
                fresh.compression_type(*rng.pick(&codecs()));
                fresh.compression_level(7);
                if self.block_size.is_some() {
                    fresh.block_size(16);
                }
                if self.interval.is_some() {
                    fresh.index_key_interval(NonZeroUsize::new(5).unwrap());
                }
                if self.levels.is_some() {
                    fresh.index_levels(4);
                }
                b = fresh;
            }
        }
        for st in steps {
            match st {
                0 => {
                    b.compression_type(self.codec);
                }
                1 => {
                    b.compression_level(self.level);
                }
                2 => {
                    if let Some(bs) = self.block_size {
                        b.block_size(bs);
                    }
                }
                3 => {
                    if let Some(i) = self.interval {
                        b.index_key_interval(NonZeroUsize::new(i).unwrap());
                    }
                }
                _ => {
                    if let Some(l) = self.levels {
                        b.index_levels(l);
                    }
                }
            }
        }
        b
    }
    pub fn class(&self) -> String {
        format!("{}-L{}", codec_name(self.codec), self.eff_levels().min(5))
    }
}

/// A compression level inside the codec's documented range.
pub fn gen_level(rng: &mut Rng, codec: CompressionType, cheap: bool) -> u32 {
    match codec {
        CompressionType::Zlib => {
            if cheap {
                *rng.pick(&[0, 1, 1, 3, 6])
            } else {
                rng.range(0, 9) as u32
            }
        }
        CompressionType::Zstd => {
            if cheap {
                *rng.pick(&[0, 1, 1, 3])
            } else {
                *rng.pick(&[0, 1, 2, 3, 5, 9, 15, 19, 22])
            }
        }
        // These codecs ignore the level: any u32 is in range.
        _ => *rng.pick(&[0, 0, 1, 9, 22, 1000, u32::MAX]),
    }
}

pub fn gen_cfg(rng: &mut Rng, cheap: bool) -> WCfg {
    if rng.chance(1, 40) {
        return WCfg::plain();
    }
    let all = codecs();
    let codec = *rng.pick(&all);
    let level = gen_level(rng, codec, cheap);
    let block_size = match if rng.chance(1, 40) { 99 } else { rng.below(12) } {
        // extreme but legal: a block size no file ever reaches
        99 => Some(*rng.pick(&[usize::MAX, usize::MAX - 1, usize::MAX / 2 + 1, 1usize << 62])),
        0 => None,
        1 => Some(0),
        2 => Some(1),
        3 => Some(1023),
        4 | 5 | 6 => Some(1024),
        7 => Some(1025),
        8 => Some(1500),
        9 => Some(4096),
        10 => Some(*rng.pick(&[8192, 65536])),
        _ => Some(rng.range(1024, 6000)),
    };
    let interval = match rng.below(12) {
        0 => None,
        1 | 2 => Some(1),
        3 => Some(2),
        4 => Some(3),
        5 => Some(7),
        6 => Some(8),
        7 => Some(9),
        8 => Some(64),
        9 => Some(1000),
        10 => Some(usize::MAX),
        _ => Some(rng.range(1, 40)),
    };
    let levels = match rng.below(14) {
        0 => None,
        1 | 2 => Some(0),
        3 | 4 => Some(1),
        5 | 6 | 7 => Some(2),
        8 | 9 => Some(3),
        10 => Some(4),
        11 => Some(*rng.pick(&[5, 7, 16])),
        12 => Some(*rng.pick(&[64, 254, 255])),
        _ => Some(rng.below(256) as u8),
    };
    WCfg { codec, level, block_size, interval, levels }
}

#[derive(Clone, Copy, Debug, PartialEq, Eq)]
pub enum KeyShape {
    /// tiny alphabet, short keys: dense prefix relations, empty key, 0x00/0x7F/0xFF bytes
    K1,
    /// fixed width counters
    K2,
    /// long keys with shared prefixes (fill index blocks)
    K3,
    /// random binary, variable length
    K4,
    /// few huge entries among tiny ones
    K5,
}

pub const K1_ALPHABET: [u8; 7] = [0x00, 0x01, 0x61, 0x62, 0x7f, 0xfe, 0xff];

pub fn gen_keys(rng: &mut Rng, shape: KeyShape, n: usize) -> Vec<Vec<u8>> {
    let mut keys: Vec<Vec<u8>> = Vec::with_capacity(n);
    match shape {
        KeyShape::K1 => {
            let maxlen = rng.range(2, 6);
            let alpha: Vec<u8> = if rng.chance(1, 3) { vec![0x00, 0x61, 0xff] } else { K1_ALPHABET.to_vec() };
            for _ in 0..n {
                let len = rng.range(0, maxlen);
                keys.push((0..len).map(|_| *rng.pick(&alpha)).collect());
            }
        }
        KeyShape::K2 => {
            let width = *rng.pick(&[2usize, 4, 4, 8]);
            let stride = *rng.pick(&[1u64, 1, 2, 3, 256, 257]);
            let start = if rng.chance(1, 2) { 0 } else { rng.below(1000) as u64 };
            for i in 0..n as u64 {
                let v = start + i * stride;
                let b = v.to_be_bytes();
                keys.push(b[8 - width..].to_vec());
            }
        }
        KeyShape::K3 => {
            let base = rng.range(200, 900);
            let groups = rng.range(1, 4);
            let prefixes: Vec<Vec<u8>> = (0..groups)
                .map(|g| {
                    let mut p = vec![b'p', g as u8];
                    let plen = rng.range(0, base / 2);
                    p.extend(rng.bytes(plen));
                    p
                })
                .collect();
            for i in 0..n {
                let mut k = prefixes[i % groups].clone();
                k.extend_from_slice(&(i as u32).to_be_bytes());
                let extra = if rng.chance(1, 10) { rng.range(0, 2200) } else { rng.range(0, base / 4) };
                let target = base + extra;
                while k.len() < target {
                    k.push(rng.byte());
                }
                keys.push(k);
            }
        }
        KeyShape::K4 => {
            let maxlen = *rng.pick(&[3usize, 8, 20, 40, 120]);
            for _ in 0..n {
                let len = rng.range(0, maxlen);
                keys.push(rng.bytes(len));
            }
        }
        KeyShape::K5 => {
            for i in 0..n {
                let mut k = (i as u32).to_be_bytes().to_vec();
                if rng.chance(1, 12) {
                    let len = *rng.pick(&[1000usize, 1024, 3000, 9000, 70_000]);
                    k.extend(rng.bytes(len));
                }
                keys.push(k);
            }
        }
    }
    keys.sort();
    keys.dedup();
    keys
}

#[derive(Clone, Copy, Debug, PartialEq, Eq)]
pub enum ValShape {
    Empty,
    Tiny,
    Medium,
    Mixed,
    Large,
}

pub fn gen_value(rng: &mut Rng, shape: ValShape) -> Vec<u8> {
    let len = match shape {
        ValShape::Empty => 0,
        ValShape::Tiny => rng.range(0, 8),
        ValShape::Medium => rng.range(0, 200),
        ValShape::Mixed => match rng.below(10) {
            0 => 0,
            1..=6 => rng.range(1, 16),
            7 | 8 => rng.range(16, 400),
            _ => rng.range(400, 5000),
        },
        ValShape::Large => {
            if rng.chance(1, 6) {
                rng.range(1000, 20_000)
            } else {
                rng.range(0, 30)
            }
        }
    };
    // Mildly compressible content so codecs take both literal and match paths.
    if rng.chance(1, 3) {
        let b = rng.byte();
        vec![b; len]
    } else {
        rng.bytes(len)
    }
}

pub fn gen_entries(rng: &mut Rng, shape: KeyShape, vshape: ValShape, n: usize) -> Vec<Entry> {
    let keys = gen_keys(rng, shape, n);
    keys.into_iter().map(|k| (k, gen_value(rng, vshape))).collect()
}

pub fn pick_shape(rng: &mut Rng) -> KeyShape {
    *rng.pick(&[KeyShape::K1, KeyShape::K1, KeyShape::K2, KeyShape::K3, KeyShape::K3, KeyShape::K4, KeyShape::K4, KeyShape::K5])
}

pub fn pick_vshape(rng: &mut Rng) -> ValShape {
    *rng.pick(&[ValShape::Empty, ValShape::Tiny, ValShape::Tiny, ValShape::Medium, ValShape::Mixed, ValShape::Mixed, ValShape::Large])
}

/// A generic random file case: entries and a writer configuration. `budget` bounds the rough
/// number of payload bytes.
pub fn gen_file_case(rng: &mut Rng, budget: usize) -> (Vec<Entry>, WCfg, KeyShape) {
    let shape = pick_shape(rng);
    let vshape = pick_vshape(rng);
    let cfg = gen_cfg(rng, true);
    let n = match shape {
        KeyShape::K1 => rng.range(0, 400),
        KeyShape::K2 => *rng.pick(&[0usize, 1, 2, 50, 300, 1500, 4000]),
        KeyShape::K3 => rng.range(1, (budget / 600).max(2)),
        KeyShape::K4 => rng.range(0, 1200),
        KeyShape::K5 => rng.range(1, 60),
    };
    let mut entries = gen_entries(rng, shape, vshape, n);
    // Trim to the budget.
    let mut total = 0usize;
    let mut keep = entries.len();
    for (i, (k, v)) in entries.iter().enumerate() {
        total += k.len() + v.len() + 4;
        if total > budget {
            keep = i + 1;
            break;
        }
    }
    entries.truncate(keep);
    (entries, cfg, shape)
}

/// A file whose deep index levels have several blocks: long keys, 1 KiB blocks.
pub fn gen_deep_case(rng: &mut Rng, levels: u8, n: usize) -> (Vec<Entry>, WCfg) {
    let mut cfg = gen_cfg(rng, true);
    cfg.block_size = Some(*rng.pick(&[0usize, 1024, 1024, 1100]));
    cfg.levels = Some(levels);
    cfg.interval = Some(*rng.pick(&[1usize, 2, 3, 8, 8, 64]));
    let entries = gen_entries(rng, KeyShape::K3, ValShape::Tiny, n);
    (entries, cfg)
}

/// Writes `entries` with the real writer. `Err` carries the panic or io error text.
pub fn build_file(cfg: &WCfg, entries: &[Entry]) -> Result<Vec<u8>, String> {
    guarded(|| -> Result<Vec<u8>, String> {
        // an all-default configuration also goes through the shortcut constructors
        let all_default = cfg.codec == CompressionType::None && cfg.level == 0 && cfg.block_size.is_none() && cfg.interval.is_none() && cfg.levels.is_none();
        let mut w = if all_default {
            match entries.len() % 4 {
                0 => Writer::memory(),
                1 => Writer::new(Vec::new()),
                2 => WriterBuilder::new().memory(),
                _ => Writer::builder().build(Vec::new()),
            }
        } else if entries.len() % 2 == 0 {
            cfg.builder().memory()
        } else {
            cfg.builder().build(Vec::new())
        };
        for (k, v) in entries {
            w.insert(k, v).map_err(|e| format!("insert io error: {}", e))?;
        }
        w.into_inner().map_err(|e| format!("into_inner io error: {}", e))
    })
    .map_err(|p| format!("panic: {}", p))?
}

/// Equivalence-class probe set for a sorted key list.
pub fn probes(rng: &mut Rng, keys: &[&[u8]], max_keys: usize) -> Vec<Vec<u8>> {
    let mut out: Vec<Vec<u8>> = vec![vec![], vec![0x00], vec![0xff], vec![0xff, 0xff], vec![0xff; 8]];
    let idxs: Vec<usize> = if keys.len() <= max_keys {
        (0..keys.len()).collect()
    } else {
        let mut v: Vec<usize> = (0..max_keys).map(|_| rng.below(keys.len())).collect();
        v.push(0);
        v.push(keys.len() - 1);
        v
    };
    for i in idxs {
        let k = keys[i];
        out.push(k.to_vec());
        let mut s = k.to_vec();
        s.push(0x00);
        out.push(s); // immediate successor
        let mut s = k.to_vec();
        s.push(0xff);
        out.push(s);
        if !k.is_empty() {
            out.push(k[..k.len() - 1].to_vec());
            let mut s = k.to_vec();
            let l = s.len() - 1;
            if s[l] < 0xff {
                s[l] += 1;
                out.push(s.clone());
                s[l] -= 1;
            }
            if s[l] > 0 {
                s[l] -= 1;
                out.push(s);
            }
        }
    }
    for _ in 0..6 {
        let len = rng.range(0, 12);
        out.push(rng.bytes(len));
    }
    if let Some(last) = keys.last() {
        let mut s = last.to_vec();
        s.extend_from_slice(&[0xff, 0xff]);
        out.push(s);
        let mut longer = vec![0u8; keys.iter().map(|k| k.len()).max().unwrap_or(0) + 3];
        longer[0] = 0x61;
        out.push(longer);
    }
    out
}

pub fn render_entries(entries: &[Entry], max: usize) -> J {
    let mut a: Vec<J> = entries.iter().take(max).map(|(k, v)| J::Str(format!("{} => {}", hex(k), hex(v)))).collect();
    if entries.len() > max {
        a.push(J::Str(format!("... {} entries in total", entries.len())));
    }
    J::Arr(a)
}

pub fn case_hash(cfg: &WCfg, entries: &[Entry]) -> u64 {
    let mut h = crate::prng::hash_bytes(1, cfg.render().as_bytes());
    for (k, v) in entries {
        h = crate::prng::mix(&[h, crate::prng::hash_bytes(2, k), crate::prng::hash_bytes(3, v)]);
    }
    h
}

// ------------------------------------------------------------------ structured (seed independent) cases

pub struct FileCase {
    pub label: String,
    pub cfg: WCfg,
    pub entries: Vec<Entry>,
}

fn k3_fixed(rng: &mut Rng, n: usize, key_len: usize) -> Vec<Entry> {
    let mut out = Vec::with_capacity(n);
    let prefix = rng.bytes(key_len / 3);
    for i in 0..n {
        let mut k = prefix.clone();
        k.extend_from_slice(&(i as u32).to_be_bytes());
        while k.len() < key_len {
            k.push(rng.byte() | 1);
        }
        let vlen = rng.range(0, 6);
        out.push((k, rng.bytes(vlen)));
    }
    out
}

fn k2_fixed(rng: &mut Rng, n: usize, vlen: usize) -> Vec<Entry> {
    (0..n as u32).map(|i| (i.to_be_bytes().to_vec(), rng.bytes(vlen))).collect()
}

/// The seed-independent part of every file-based workload: it alone meets the coverage
/// obligations (all codecs, depth classes, multi-block deep index levels, boundary shapes).
pub fn structured_cases(thorough: bool) -> Vec<FileCase> {
    let mut rng = Rng::new(0x5EED_0001);
    let mut out = Vec::new();
    let all = codecs();
    // A. codec x levels x block size x interval on long-key files
    for &codec in &all {
        for &levels in &[0u8, 1, 2, 3, 255] {
            for &bs in &[1024usize, 8192] {
                for &interval in &[1usize, 8] {
                    let n = if bs == 1024 { 120 } else { 160 };
                    let level = match codec {
                        CompressionType::Zlib => 6,
                        CompressionType::Zstd => 3,
                        _ => 0,
                    };
                    out.push(FileCase {
                        label: format!("A/{}/L{}/bs{}/i{}", codec_name(codec), levels, bs, interval),
                        cfg: WCfg { codec, level, block_size: Some(bs), interval: Some(interval), levels: Some(levels) },
                        entries: k3_fixed(&mut rng, n, 400),
                    });
                }
            }
        }
    }
    // B. empty files
    for &codec in &all {
        for &levels in &[0u8, 1, 3, 255] {
            out.push(FileCase {
                label: format!("B/empty/{}/L{}", codec_name(codec), levels),
                cfg: WCfg { codec, level: 1, block_size: None, interval: None, levels: Some(levels) },
                entries: vec![],
            });
        }
    }
    // C. tiny shapes
    for &codec in &all {
        let base = WCfg { codec, level: 1, block_size: Some(1024), interval: None, levels: Some(2) };
        out.push(FileCase { label: format!("C/single/{}", codec_name(codec)), cfg: base.clone(), entries: vec![(b"k".to_vec(), b"v".to_vec())] });
        out.push(FileCase { label: format!("C/empty-key-only/{}", codec_name(codec)), cfg: base.clone(), entries: vec![(vec![], b"value-of-empty-key".to_vec())] });
        out.push(FileCase { label: format!("C/empty-key-empty-value/{}", codec_name(codec)), cfg: base.clone(), entries: vec![(vec![], vec![])] });
        let mut e = vec![(vec![], vec![1u8, 2, 3])];
        e.extend(k2_fixed(&mut rng, 700, 3));
        out.push(FileCase { label: format!("C/empty-key-first/{}", codec_name(codec)), cfg: base.clone(), entries: e });
        out.push(FileCase { label: format!("C/all-empty-values/{}", codec_name(codec)), cfg: base.clone(), entries: k2_fixed(&mut rng, 900, 0) });
    }
    // D. huge entries
    for &codec in codecs().iter().filter(|c| !cfg!(miri) || **c == CompressionType::None) {
        let mut e = k2_fixed(&mut rng, 40, 5);
        e[20].1 = rng.bytes(1 << 20);
        let mut big_key = e[30].0.clone();
        big_key.extend(rng.bytes(300_000));
        e[30].0 = big_key;
        out.push(FileCase {
            label: format!("D/1MiB-value+300KB-key/{}", codec_name(codec)),
            cfg: WCfg { codec, level: 0, block_size: Some(4096), interval: Some(3), levels: Some(2) },
            entries: e,
        });
    }
    // D2. one huge, extremely compressible value (1 MiB of one byte) per codec
    for &codec in codecs().iter().filter(|c| !cfg!(miri) || **c == CompressionType::None) {
        let mut e = k2_fixed(&mut rng, 12, 3);
        e[5].1 = vec![0u8; 1 << 20];
        e[9].1 = vec![0x61u8; 300_000];
        out.push(FileCase {
            label: format!("D2/1MiB-of-zeroes/{}", codec_name(codec)),
            cfg: WCfg { codec, level: 1, block_size: None, interval: None, levels: Some(1) },
            entries: e,
        });
    }
    // E. every index_levels value (subset in quick)
    let lv: Vec<u8> = if thorough { (0..=255u8).collect() } else { vec![0, 1, 2, 3, 4, 5, 6, 7, 8, 16, 64, 127, 128, 254, 255] };
    for levels in lv {
        out.push(FileCase {
            label: format!("E/levels{}", levels),
            cfg: WCfg { codec: CompressionType::None, level: 0, block_size: Some(1024), interval: Some(2), levels: Some(levels) },
            entries: k3_fixed(&mut rng, 60, 300),
        });
    }
    // F. codec level sweeps
    for level in 0..=9u32 {
        out.push(FileCase {
            label: format!("F/zlib-level{}", level),
            cfg: WCfg { codec: CompressionType::Zlib, level, block_size: Some(2048), interval: None, levels: Some(1) },
            entries: k2_fixed(&mut rng, 1200, 6),
        });
    }
    if cfg!(feature = "zstd") {
        for level in 0..=22u32 {
            out.push(FileCase {
                label: format!("F/zstd-level{}", level),
                cfg: WCfg { codec: CompressionType::Zstd, level, block_size: Some(2048), interval: None, levels: Some(1) },
                entries: k2_fixed(&mut rng, 600, 6),
            });
        }
    }
    // G. in-block index intervals
    for &interval in &[1usize, 2, 3, 7, 8, 9, 64, 1000, usize::MAX] {
        out.push(FileCase {
            label: format!("G/interval{}", interval),
            cfg: WCfg { codec: CompressionType::Snappy, level: 0, block_size: Some(1024), interval: Some(interval), levels: Some(1) },
            entries: k2_fixed(&mut rng, 1000, 2),
        });
    }
    // H. block size values around the clamp, default everything
    for &bs in &[0usize, 1, 1023, 1024, 1025, 1500, 65536] {
        out.push(FileCase {
            label: format!("H/block_size{}", bs),
            cfg: WCfg { codec: CompressionType::None, level: 0, block_size: Some(bs), interval: None, levels: Some(2) },
            entries: k2_fixed(&mut rng, 2500, 9),
        });
    }
    out.push(FileCase { label: "H/all-defaults".into(), cfg: WCfg::plain(), entries: k2_fixed(&mut rng, 5000, 4) });
    // I. key and value lengths on either side of the length-framing boundaries
    for &codec in &[CompressionType::None, CompressionType::Snappy, CompressionType::Zlib] {
        let lens = [0usize, 1, 126, 127, 128, 129, 16382, 16383, 16384, 16385];
        let mut e: Vec<Entry> = Vec::new();
        for (i, &vl) in lens.iter().enumerate() {
            e.push(((i as u32).to_be_bytes().to_vec(), rng.bytes(vl)));
        }
        for (i, &kl) in lens.iter().enumerate().skip(2) {
            let mut k = vec![0xEEu8, i as u8];
            while k.len() < kl {
                k.push(rng.byte());
            }
            k.truncate(kl.max(2));
            e.push((k, vec![i as u8; 3]));
        }
        e.sort();
        e.dedup_by(|a, b| a.0 == b.0);
        out.push(FileCase {
            label: format!("I/framing-boundary-lengths/{}", codec_name(codec)),
            cfg: WCfg { codec, level: 1, block_size: Some(4096), interval: Some(2), levels: Some(2) },
            entries: e,
        });
    }
    // J. highly compressible content: far less than one stored byte per entry
    let mut comp: Vec<(CompressionType, u32, Option<usize>, usize)> = vec![(CompressionType::Zlib, 9, None, 64)];
    if cfg!(feature = "zstd") {
        comp.push((CompressionType::Zstd, 0, None, 64));
        comp.push((CompressionType::Zstd, 19, Some(65536), 1000));
    }
    for (codec, level, bs, interval) in comp {
        let n = if cfg!(miri) { 50 } else { 60_000 };
        let e: Vec<Entry> = (0..n).map(|i| (format!("{:08}", i).into_bytes(), vec![])).collect();
        out.push(FileCase {
            label: format!("J/highly-compressible/{}-level{}", codec_name(codec), level),
            cfg: WCfg { codec, level, block_size: bs, interval: Some(interval), levels: Some(0) },
            entries: e,
        });
    }
    {
        let mut e = k2_fixed(&mut rng, 6, 2);
        e[2].1 = rng.bytes((1 << 21) - 1);
        e[3].1 = rng.bytes(1 << 21);
        e[4].1 = rng.bytes((1 << 21) + 1);
        out.push(FileCase {
            label: "I/framing-boundary-2^21-values".into(),
            cfg: WCfg { codec: CompressionType::None, level: 0, block_size: Some(8192), interval: None, levels: Some(1) },
            entries: e,
        });
    }
    // D3. incompressible blocks of several MiB per codec (beyond any codec's internal window,
    // chunk or staging size: 3 MiB, 5 MiB and a 2^22+1 value in one file)
    if !cfg!(miri) {
        for &codec in codecs().iter() {
            let mut e = k2_fixed(&mut rng, 8, 2);
            e[1].1 = rng.bytes(3 << 20);
            e[4].1 = rng.bytes(5 << 20);
            e[6].1 = rng.bytes((1 << 22) + 1);
            out.push(FileCase {
                label: format!("D3/multi-MiB-incompressible-values/{}", codec_name(codec)),
                cfg: WCfg { codec, level: 0, block_size: None, interval: None, levels: Some(1) },
                entries: e,
            });
        }
    }
    out
}
