//! C11 — results and emitted bytes do not depend on how I/O calls are split or interrupted.

use std::collections::BTreeMap;
use std::ops::Bound;
use std::sync::Arc;

use grenad::{MergerBuilder, Reader};

use super::c06;
use super::c07::judge;
use super::query::{check_prefix, check_range, check_seeks, gen_bound, gen_prefixes, open_cursor, Q};
use super::sorter_common::{gen_inserts_capped, gen_scfg, read_back, run_sorter, Route};
use crate::cur::{first_diff, scan_backward, scan_forward, Entry};
use crate::gen::{self, WCfg};
use crate::io_mon::{MonChunkCreator, MonSink, MonSource, Split, SplitState};
use crate::json::J;
use crate::merge_mon::{MergeKind, MonMerge};
use crate::prng::Rng;
use crate::verdict::{guarded, Ctx};

/// Writes `entries` through a monitored sink with the given schedule.
fn write_with(cfg: &WCfg, entries: &[Entry], split: &Split, seed: u64) -> Result<(Vec<u8>, u64, u64), String> {
    let (sink, shared) = MonSink::new("sink", SplitState::new(split.clone(), seed), None);
    let r = guarded(|| -> Result<(), String> {
        let mut w = cfg.builder().build(sink);
        for (k, v) in entries {
            w.insert(k, v).map_err(|e| format!("insert: {:?} {}", e.kind(), e))?;
        }
        w.finish().map_err(|e| format!("finish: {:?} {}", e.kind(), e))
    });
    match r {
        Ok(Ok(())) => {
            let g = shared.lock().unwrap();
            Ok((g.bytes.clone(), g.partial, g.interrupts))
        }
        Ok(Err(e)) => Err(e),
        Err(p) => Err(format!("panic: {}", p)),
    }
}

fn writer_case(ctx: &Ctx, stream: &str, idx: u64, cfg: &WCfg, entries: &[Entry], rng: &mut Rng) -> Option<Vec<u8>> {
    let detail = |split: &Split, what: &str, obs: String| J::obj().set("scenario", "writer").set("config", cfg.render()).set("n_entries", entries.len()).set("entries", gen::render_entries(entries, 4)).set("sink_schedule", split.name()).set("what", what).set("observed", obs);
    let reference = match write_with(cfg, entries, &Split::Full, 0) {
        Ok(r) => r.0,
        Err(_) => {
            ctx.count("cases_skipped_unbuildable", 1);
            return None;
        }
    };
    // determinism across repeated runs: another writer with a different level / codec works on
    // this thread in between (the bytes must not depend on what was written before)
    {
        let mut decoy = cfg.clone();
        decoy.level = match cfg.codec {
            grenad::CompressionType::Zlib => (cfg.level + 5) % 10,
            grenad::CompressionType::Zstd => (cfg.level + 11) % 23,
            _ => cfg.level.wrapping_add(1),
        };
        let some: Vec<Entry> = entries.iter().take(40).cloned().collect();
        let _ = write_with(&decoy, &some, &Split::Full, 0);
    }
    // ... and the repeated run happens on a brand-new thread (no per-thread state carried over)
    let again = std::thread::scope(|sc| sc.spawn(|| write_with(cfg, entries, &Split::Full, 1)).join().unwrap_or_else(|_| Err("thread panicked".into())));
    if let Ok(again) = again {
        ctx.count("repeat_runs_compared", 1);
        if again.0 != reference {
            ctx.violation("bytes-differ-between-identical-runs", stream, idx, detail(&Split::Full, "two identical runs emitted different byte streams", format!("lengths {} vs {}", reference.len(), again.0.len())));
        }
    }
    for split in Split::all().into_iter().skip(1) {
        match write_with(cfg, entries, &split, rng.next_u64()) {
            Ok((bytes, partial, intr)) => {
                ctx.count("writer_runs_under_schedules", 1);
                ctx.count("partial_writes_served", partial);
                ctx.count("write_interruptions_served", intr);
                if bytes != reference {
                    let at = bytes.iter().zip(&reference).position(|(a, b)| a != b).unwrap_or(bytes.len().min(reference.len()));
                    ctx.violation("bytes-depend-on-sink-schedule", stream, idx, detail(&split, "byte stream handed to the sink differs from the whole-buffer run", format!("{} bytes vs {} bytes, first difference at offset {}", bytes.len(), reference.len(), at)));
                }
            }
            Err(e) => ctx.violation("writer-fails-under-sink-schedule", stream, idx, detail(&split, "writer failed although the sink only split or interrupted calls", e)),
        }
    }
    Some(reference)
}

fn reader_case(ctx: &Ctx, stream: &str, idx: u64, cfg: &WCfg, entries: &[Entry], bytes: Vec<u8>, rng: &mut Rng, splits: &[Split]) {
    let data = Arc::new(bytes);
    let keys: Vec<&[u8]> = entries.iter().map(|(k, _)| k.as_slice()).collect();
    let probes = gen::probes(rng, &keys, 6);
    for split in splits {
        let seed = rng.next_u64();
        let sname = split.name();
        let label = format!("reader under source schedule {}", sname);
        let sigp = format!("split-{}-", if split.has_interrupts() { "interrupt" } else { "short" });
        let q = Q { ctx, stream, idx, label: &label, cfg: cfg.render(), entries, sig: &sigp };
        let counter = std::cell::Cell::new(0u64);
        let mk = || {
            counter.set(counter.get() + 1);
            MonSource::new("source", data.clone(), SplitState::new(split.clone(), seed ^ counter.get()), None)
        };
        ctx.tag("read_side_codec_x_schedule", &format!("{} x {}", gen::codec_name(cfg.codec), if split.has_interrupts() { "interrupt" } else { "short" }));
        ctx.count("reader_runs_under_schedules", 1);
        let limit = entries.len() + 2;
        match open_cursor(mk()) {
            Ok(mut c) => {
                match scan_forward(&mut c, limit) {
                    Ok(got) => {
                        if let Some(d) = first_diff(entries, &got) {
                            q.viol("scan-differs", "forward scan differs under a split/interrupting source", "forward scan".into(), "inserted list".into(), d);
                        }
                    }
                    Err(e) => q.viol("scan-failed", "forward scan failed although the source only split or interrupted reads", "forward scan".into(), "inserted list".into(), e),
                }
                let lg = c.get_ref().log.lock().unwrap();
                ctx.count("short_reads_served", lg.n_short);
                ctx.count("read_interruptions_served", lg.n_interrupts);
            }
            Err(e) => q.viol("open-failed", "open failed although the source only split or interrupted reads", "open".into(), "Ok".into(), e),
        }
        if let Ok(mut c) = open_cursor(mk()) {
            match scan_backward(&mut c, limit) {
                Ok(mut got) => {
                    got.reverse();
                    if let Some(d) = first_diff(entries, &got) {
                        q.viol("scan-differs", "backward scan differs under a split/interrupting source", "backward scan".into(), "inserted list".into(), d);
                    }
                }
                Err(e) => q.viol("scan-failed", "backward scan failed although the source only split or interrupted reads", "backward scan".into(), "inserted list".into(), e),
            }
        }
        check_seeks(&q, &mk, &probes, &[]);
        for _ in 0..3 {
            let (sk, ek) = (rng.below(3), rng.below(3));
            let (s, e): (Bound<Vec<u8>>, Bound<Vec<u8>>) = (gen_bound(rng, sk, &probes), gen_bound(rng, ek, &probes));
            check_range(&q, &mk, &s, &e);
        }
        for p in gen_prefixes(rng, entries, 2).into_iter().skip(4) {
            check_prefix(&q, &mk, &p);
        }
    }
}

fn merger_case(ctx: &Ctx, stream: &str, idx: u64, rng: &mut Rng, splits: &[Split]) {
    let case = c06::gen_case(rng);
    let mut files = Vec::new();
    for (cfg, es) in &case.sources {
        match gen::build_file(cfg, es) {
            Ok(b) => files.push(Arc::new(b)),
            Err(_) => return,
        }
    }
    let mut model: BTreeMap<Vec<u8>, Vec<Vec<u8>>> = BTreeMap::new();
    for (_, es) in &case.sources {
        for (k, v) in es {
            model.entry(k.clone()).or_default().push(v.clone());
        }
    }
    for split in splits {
        let mf = MonMerge::new(case.kind);
        let seed = rng.next_u64();
        let r = guarded(|| -> Result<Vec<Entry>, String> {
            let mut b = MergerBuilder::new(mf.clone());
            for (i, f) in files.iter().enumerate() {
                let src = MonSource::new("source", f.clone(), SplitState::new(split.clone(), seed ^ i as u64), None);
                b.push(Reader::new(src).and_then(|r| r.into_cursor()).map_err(|e| format!("open: {}", e))?);
            }
            let mut it = b.build().into_stream_merger_iter().map_err(|e| format!("into_stream_merger_iter: {}", e))?;
            let mut out = Vec::new();
            while let Some((k, v)) = it.next().map_err(|e| format!("next: {}", e))? {
                out.push((k.to_vec(), v.to_vec()));
                if out.len() > model.len() + 2 {
                    return Err("too many entries".into());
                }
            }
            Ok(out)
        });
        ctx.count("merger_runs_under_schedules", 1);
        let detail = |what: &str, obs: String| J::obj().set("scenario", "merger").set("n_sources", case.sources.len()).set("merge_function", case.kind.name()).set("source_schedule", split.name()).set("sources", J::Arr(case.sources.iter().map(|(c, e)| J::obj().set("config", c.render()).set("n", e.len())).collect())).set("what", what).set("observed", obs);
        let kindsig = if split.has_interrupts() { "interrupt" } else { "short" };
        match r {
            Ok(Ok(out)) => {
                if let Err((sig, obs)) = c06::check_outputs(case.kind, &model, &out, &mf.log.lock().unwrap()) {
                    ctx.violation(&format!("split-{}-merger-{}", kindsig, sig), stream, idx, detail("merger output differs under split/interrupting sources", obs));
                }
            }
            Ok(Err(e)) => ctx.violation(&format!("split-{}-merger-failed", kindsig), stream, idx, detail("merger failed although sources only split or interrupted reads", e)),
            Err(p) => ctx.violation(&format!("split-{}-merger-failed", kindsig), stream, idx, detail("merger panicked", p)),
        }
    }
}

fn sorter_case(ctx: &Ctx, stream: &str, idx: u64, rng: &mut Rng, splits: &[Split]) {
    let mut scfg = gen_scfg(rng);
    scfg.parallel = false;
    scfg.stable = true;
    let kind = *rng.pick(&[MergeKind::Concat, MergeKind::Last, MergeKind::Min, MergeKind::KeyedMinMax]);
    let uni = *rng.pick(&[2usize, 20, 300]);
    let plan = gen_inserts_capped(rng, rng.clone().range(0, 1500), uni, 40, false, None, scfg.budget * 12);
    let out_cfg = gen::gen_cfg(rng, true);
    // reference bytes of the write route with whole-buffer I/O everywhere
    let mut reference: Option<Vec<u8>> = None;
    let mut all = vec![Split::Full];
    all.extend(splits.iter().cloned());
    for split in &all {
        for route in Route::ALL {
            let cc = MonChunkCreator::new(None, split.clone(), split.clone(), rng.next_u64());
            let stats = cc.stats.clone();
            let (sink, shared) = MonSink::new("out", SplitState::new(split.clone(), rng.next_u64()), None);
            let r = run_sorter(&scfg, MonMerge::with_plan(kind, None), cc, &plan.inserts, route, &out_cfg, sink, |_, _| {});
            ctx.count("sorter_runs_under_schedules", 1);
            {
                let st = stats.lock().unwrap();
                ctx.count("chunk_short_io_served", st.shorts);
                ctx.count("chunk_interruptions_served", st.interrupts);
                if st.created > 1 {
                    ctx.count("sorter_runs_with_spills_under_schedules", 1);
                }
            }
            let detail = |what: &str, obs: String| J::obj().set("scenario", "sorter").set("sorter", scfg.render()).set("merge_function", kind.name()).set("route", route.name()).set("chunk_and_sink_schedule", split.name()).set("n_inserts", plan.inserts.len()).set("what", what).set("observed", obs);
            let kindsig = if split.has_interrupts() { "interrupt" } else { "short" };
            let out = match r {
                Ok(v) => {
                    if route == Route::Write {
                        let bytes = shared.lock().unwrap().bytes.clone();
                        match &reference {
                            None => reference = Some(bytes.clone()),
                            Some(rf) => {
                                if rf != &bytes {
                                    ctx.violation(&format!("split-{}-sorter-bytes-differ", kindsig), stream, idx, detail("bytes written by write_into_stream_writer differ from the whole-buffer run", format!("{} vs {} bytes", bytes.len(), rf.len())));
                                }
                            }
                        }
                        match read_back(&bytes, plan.inserts.len() + 2) {
                            Ok(v) => v,
                            Err(e) => {
                                ctx.violation(&format!("split-{}-sorter-failed", kindsig), stream, idx, detail("written file unreadable", e));
                                continue;
                            }
                        }
                    } else {
                        v
                    }
                }
                Err(f) => {
                    ctx.violation(&format!("split-{}-sorter-failed", kindsig), stream, idx, detail("sorter failed although chunk storage and sink only split or interrupted calls", f.render()));
                    continue;
                }
            };
            if let Err((sig, obs)) = judge(kind, true, &plan.model, &out) {
                ctx.violation(&format!("split-{}-sorter-{}", kindsig, sig), stream, idx, detail("sorter output differs under split/interrupting chunk storage", obs));
            }
        }
    }
}

pub fn run(ctx: &Ctx) -> i32 {
    let all_splits: Vec<Split> = Split::all().into_iter().skip(1).collect();
    // structured: every codec x every schedule on a multi-block file (read and write side)
    let codecs = gen::codecs();
    ctx.par("codec-x-schedule", codecs.len() * 2, false, |idx, rng| {
        let codec = codecs[idx as usize / 2];
        let cfg = WCfg { codec, level: 1, block_size: Some(1024), interval: Some(3), levels: Some((idx % 2) as u8 * 2) };
        let entries = gen::gen_entries(rng, gen::KeyShape::K2, gen::ValShape::Medium, 300);
        if let Some(bytes) = writer_case(ctx, "codec-x-schedule", idx, &cfg, &entries, rng) {
            reader_case(ctx, "codec-x-schedule", idx, &cfg, &entries, bytes, rng, &all_splits);
        }
        ctx.eval(gen::case_hash(&cfg, &entries), true);
    });
    let n = ctx.n(1000, 20_000);
    ctx.par("files", n, true, |idx, rng| {
        let (entries, cfg, _) = gen::gen_file_case(rng, 20_000);
        let picks: Vec<Split> = (0..2).map(|_| rng.pick(&all_splits).clone()).collect();
        let (entries, cfg) = if idx % 5 == 0 {
            let mut c = cfg;
            c.levels = Some(0);
            (entries, c)
        } else {
            (entries, cfg)
        };
        if let Some(bytes) = writer_case(ctx, "files", idx, &cfg, &entries, rng) {
            let nontrivial = bytes.len() > 2000;
            // every fifth file is read back as a V1 file (21-byte trailer)
            let bytes = if idx % 5 == 0 {
                ctx.count("v1_files_read_under_schedules", 1);
                super::c10::to_v1(&bytes)
            } else {
                bytes
            };
            reader_case(ctx, "files", idx, &cfg, &entries, bytes, rng, &picks);
            ctx.eval(gen::case_hash(&cfg, &entries), nontrivial);
            ctx.sample(|| J::obj().set("scenario", "writer+reader").set("config", cfg.render()).set("n_entries", entries.len()).set("schedules", J::Arr(picks.iter().map(|s| J::Str(s.name())).collect())));
        }
    });
    let n = ctx.n(800, 15_000);
    ctx.par("mergers", n, true, |idx, rng| {
        let picks: Vec<Split> = (0..2).map(|_| rng.pick(&all_splits).clone()).collect();
        merger_case(ctx, "mergers", idx, rng, &picks);
        ctx.eval(crate::prng::mix(&[idx, 0xAA]), true);
    });
    let n = ctx.n(400, 10_000);
    ctx.par("sorters", n, true, |idx, rng| {
        let picks: Vec<Split> = (0..2).map(|_| rng.pick(&all_splits).clone()).collect();
        sorter_case(ctx, "sorters", idx, rng, &picks);
        ctx.eval(crate::prng::mix(&[idx, 0xBB]), true);
    });
    if ctx.only.is_none() {
        for c in gen::codecs() {
            for k in ["short", "interrupt"] {
                ctx.obligation(&format!("read side: codec {} x {}", gen::codec_name(c), k), ctx.has_tag("read_side_codec_x_schedule", &format!("{} x {}", gen::codec_name(c), k)));
            }
        }
        ctx.obligation("partial writes served", ctx.counter("partial_writes_served") > 0);
        ctx.obligation("write interruptions served", ctx.counter("write_interruptions_served") > 0);
        ctx.obligation("short reads and read interruptions served", ctx.counter("short_reads_served") > 0 && ctx.counter("read_interruptions_served") > 0);
        ctx.obligation("sorter chunks written and read under schedules with spills", ctx.counter("sorter_runs_with_spills_under_schedules") > 0 && ctx.counter("chunk_short_io_served") > 0 && ctx.counter("chunk_interruptions_served") > 0);
    }
    ctx.finish(
        "exploration",
        "the scenario kinds of C01-C07 re-run under per-call I/O schedules (all-1-byte, random 1..=len, interrupt every 2nd/3rd/5th/7th call, chaos = interrupt p=0.3 + short): writer: the byte stream received by a monitored sink must equal the whole-buffer run (and two identical runs must agree); reader: scans, GE/LE/EQ probes, range and prefix iterators over a monitored source must equal the reference model, for every codec x {short, interrupt}; merger: sources served under schedules, output checked by C06's law checker; sorter: monitored chunk storage and output sink under schedules, all three routes checked by C07's oracle and the written bytes compared with the whole-buffer run. evaluations = scenarios; non-trivial = every scenario served at least one split or interrupted call (files > 2000 bytes for the file stream); distinct = distinct scenario hash",
        &["Ok(0) on a non-empty buffer is not a partial write in 1..=len and is never scheduled", "interruptions are bounded runs of ErrorKind::Interrupted (a retry request), at most 3 in a row"],
        J::obj(),
    )
}
