//! C08 — sorter spills: unspilled data and live chunks stay within configured bounds.

use std::sync::atomic::{AtomicU64, Ordering};
use std::sync::{Arc, Mutex};

use super::sorter_common::{gen_scfg, run_sorter, Route, SCfg};
use crate::cur::Entry;
use crate::gen;
use crate::io_mon::{MonChunkCreator, MonSink, Split, SplitState};
use crate::json::J;
use crate::merge_mon::{MergeKind, MonMerge};
use crate::prng::Rng;
use crate::verdict::{Ctx, Tier};

#[derive(Default)]
struct Mon {
    since: u64,
    max_since: u64,
    creates: u64,
    max_live_at_create: u64,
    spills_seen_by_h3: u64,
    spills_without_create: u64,
    first_bound_violation: Option<String>,
    first_live_violation: Option<String>,
}

fn check_case(ctx: &Ctx, stream: &str, idx: u64, scfg: &SCfg, inserts: &[Entry], route: Route) {
    let t = scfg.effective_budget() as u64;
    let bound = if scfg.allow_realloc { 2 * t } else { t };
    let mon = Arc::new(Mutex::new(Mon::default()));
    let creates = Arc::new(AtomicU64::new(0));
    let mut cc = MonChunkCreator::new(None, Split::Full, Split::Full, 0);
    let stats = cc.stats.clone();
    {
        let mon = mon.clone();
        let creates = creates.clone();
        // a configured maximum of 0 is raised to 1 by the builder: the bound uses that effective value
        let max_chunks = scfg.max_nb_chunks.max(1) as u64;
        cc.on_create = Some(Arc::new(move |live| {
            let mut m = mon.lock().unwrap();
            m.creates += 1;
            creates.fetch_add(1, Ordering::SeqCst);
            m.since = 0;
            if live > m.max_live_at_create {
                m.max_live_at_create = live;
            }
            if live > max_chunks.saturating_add(2) && m.first_live_violation.is_none() {
                m.first_live_violation = Some(format!("{} chunks exist at create #{} (effective max_nb_chunks = {})", live, m.creates, max_chunks));
            }
        }));
    }
    let (sink, _shared) = MonSink::new("out", SplitState::full(), None);
    let mf = MonMerge::with_plan(MergeKind::Last, None);
    let mut last_bounds = 0usize;
    let mut last_len = 0usize;
    let mut last_creates = 0u64;
    let out_cfg = gen::WCfg::plain();
    let r = run_sorter(scfg, mf, cc, inserts, route, &out_cfg, sink, |s, i| {
        let st = s.verif_buffer_state();
        let mut m = mon.lock().unwrap();
        let pending = (inserts[i].0.len() + inserts[i].1.len()) as u64;
        m.since += pending;
        if m.since > m.max_since {
            m.max_since = m.since;
        }
        if m.since > bound && m.first_bound_violation.is_none() {
            m.first_bound_violation = Some(format!("after insert #{}: {} bytes inserted since the last spill, bound {} (T = {})", i, m.since, bound, t));
        }
        let now_creates = creates.load(Ordering::SeqCst);
        // the buffer was emptied during this insert (a spill) iff it held entries before and now
        // holds exactly the entry just inserted
        if last_bounds >= 1 && st.2 == 1 && st.1 as u64 == pending && (last_bounds > 1 || last_len != 0) {
            m.spills_seen_by_h3 += 1;
            if now_creates == last_creates {
                m.spills_without_create += 1;
            }
        }
        last_len = st.1;
        last_bounds = st.2;
        last_creates = now_creates;
    });
    let m = mon.lock().unwrap();
    let st = stats.lock().unwrap();
    let total: usize = inserts.iter().map(|(k, v)| k.len() + v.len()).sum();
    let detail = |what: &str, obs: String| {
        J::obj()
            .set("sorter", scfg.render())
            .set("effective_budget_T", t)
            .set("n_inserts", inserts.len())
            .set("inserted_bytes", total)
            .set("largest_entry", inserts.iter().map(|(k, v)| k.len() + v.len()).max().unwrap_or(0))
            .set("route", route.name())
            .set("what", what)
            .set("observed", obs)
            .set("chunk_events_tail", J::Arr(st.events.iter().rev().take(12).rev().map(|(e, l)| J::Str(format!("{} -> {} live", e, l))).collect()))
    };
    if let Err(f) = &r {
        ctx.violation("sorter-failed", stream, idx, detail("sorter failed with working components", f.render()));
    }
    if let Some(v) = &m.first_bound_violation {
        ctx.violation("unspilled-volume-exceeds-bound", stream, idx, detail("volume inserted since the last spill exceeds the bound", v.clone()));
    }
    if let Some(v) = &m.first_live_violation {
        ctx.violation("too-many-live-chunks", stream, idx, detail("more chunks exist at once than max_nb_chunks + 2", v.clone()));
    }
    if m.spills_without_create > 0 {
        ctx.violation("spill-bypassed-chunk-creator", stream, idx, detail("the in-memory buffer was emptied during an insert without a call to the supplied chunk creator", format!("{} such inserts", m.spills_without_create)));
    }
    // every chunk is dropped in the end (the merger iterator was drained and dropped)
    if r.is_ok() && st.live() != 0 {
        ctx.count("runs_with_chunks_alive_after_drop", 1);
    }
    ctx.count("sorter_runs", 1);
    ctx.count("creates_observed", m.creates);
    ctx.count("spills_observed_via_H3", m.spills_seen_by_h3);
    ctx.count("inserted_bytes", total as u64);
    ctx.max("max_live_chunks_minus_max_nb_chunks", m.max_live_at_create.saturating_sub(scfg.max_nb_chunks.max(1) as u64));
    ctx.max(if scfg.allow_realloc { "max_unspilled_permille_of_T(realloc on, bound 2000)" } else { "max_unspilled_permille_of_T(realloc off, bound 1000)" }, m.max_since * 1000 / t.max(1));
    ctx.max("max_volume_over_T", (total as u64) / t.max(1));
    if m.spills_seen_by_h3 >= 3 {
        ctx.count("runs_with_3+_spills", 1);
    }
    ctx.tag("realloc_policies", if scfg.allow_realloc { "on" } else { "off" });
    ctx.tag("max_nb_chunks", &scfg.max_nb_chunks.to_string());
    ctx.tag("budget_kind", if scfg.raw { "hook-H2-scaled" } else { "public-API-10MiB" });
    let mut h = crate::prng::hash_bytes(4, scfg.render().as_bytes());
    h = crate::prng::mix(&[h, inserts.len() as u64, total as u64, inserts.first().map(|e| crate::prng::hash_bytes(1, &e.1)).unwrap_or(0)]);
    ctx.eval(h, m.spills_seen_by_h3 >= 3);
    ctx.sample(|| detail("sample", format!("creates={} max_since={} max_live_at_create={}", m.creates, m.max_since, m.max_live_at_create)));
}

fn gen_small_entries(rng: &mut Rng, t: usize, total: usize, cap_count: usize) -> Vec<Entry> {
    let max_entry = (t / 4).max(1);
    let style = rng.below(5);
    let mut burst_left = 0usize;
    let mut out = Vec::new();
    let mut sum = 0usize;
    let mut i = 0u32;
    while sum < total && out.len() < cap_count {
        // style 4: bursts of zero-length ("", "") entries longer than the number of bounds the
        // buffer can hold, between stretches of ordinary data
        if style == 4 {
            if burst_left == 0 && rng.chance(1, 60) {
                burst_left = t / 16 + rng.range(2, 40);
            }
            if burst_left > 0 {
                burst_left -= 1;
                out.push((vec![], vec![]));
                i += 1;
                continue;
            }
        }
        let size = match style {
            0 => max_entry,                        // always the largest allowed
            1 => rng.range(0, max_entry.min(64)),  // tiny
            2 => rng.range(0, max_entry),          // anything allowed
            _ => {
                if rng.chance(1, 10) {
                    max_entry
                } else {
                    rng.range(0, 32)
                }
            }
        };
        let klen = size.min(rng.range(0, 12));
        let mut k = rng.bytes(klen);
        if klen >= 4 && rng.chance(1, 2) {
            k[..4].copy_from_slice(&i.to_be_bytes());
        }
        let v = vec![i as u8; size - klen];
        sum += size;
        out.push((k, v));
        i += 1;
    }
    out
}

pub fn run(ctx: &Ctx) -> i32 {
    let n = ctx.n(2500, 80_000);
    ctx.par("scaled", n, true, |idx, rng| {
        let mut scfg = gen_scfg(rng);
        scfg.parallel = false;
        scfg.max_nb_chunks = if rng.chance(1, 30) { usize::MAX } else { *rng.pick(&[0usize, 1, 1, 2, 3, 5, 8, 30]) };
        // budgets on and off multiples of the 16-byte bound size
        scfg.budget = *rng.pick(&[1000usize, 1024, 2048, 4096, 5000, 10_001, 14_285, 16_384, 65_536]);
        // initial capacity never above the budget (as with the real constants)
        scfg.initial = if scfg.allow_realloc {
            Some(match rng.below(6) {
                0 => 16,
                1 => 64,
                2 => scfg.budget / 8,
                3 => scfg.budget,
                // capacities whose doubling sequence overshoots the budget by 2..24 % (the budget
                // is then not on a doubling step, as with dump_threshold(16_000_000))
                _ => {
                    let over = scfg.budget + scfg.budget * rng.range(2, 24) / 100;
                    (over >> rng.range(1, 5)).max(16)
                }
            })
        } else {
            None
        };
        // cheap chunk files: the property is about volume, not format
        scfg.codec = Some(*rng.pick(&[grenad::CompressionType::None, grenad::CompressionType::None, grenad::CompressionType::Snappy]));
        scfg.levels = Some(0);
        scfg.block_size = None;
        scfg.interval = None;
        let factor = rng.range(20, 200);
        let total = (scfg.budget * factor).min(3_000_000);
        let inserts = gen_small_entries(rng, scfg.budget, total, 60_000);
        let route = *rng.pick(&Route::ALL);
        check_case(ctx, "scaled", idx, &scfg, &inserts, route);
    });
    // real thresholds through the public API
    let n = ctx.n(6, 60);
    let big = ctx.tier == Tier::Thorough;
    ctx.par("real-threshold", n, true, |idx, rng| {
        // budgets on and off the 128 KiB x 2^n doubling steps of the buffer
        let requested = *rng.pick(&[0usize, 1024, 10 * 1024 * 1024, 16 * 1024 * 1024, 12_000_000, 14_285_714, 16_000_000, 20_000_000]);
        let scfg = SCfg {
            budget: requested,
            raw: false,
            initial: None,
            allow_realloc: idx % 2 == 0,
            max_nb_chunks: *rng.pick(&[1usize, 2, 4, 25]),
            stable: true,
            parallel: false,
            codec: Some(grenad::CompressionType::None),
            level: None,
            block_size: None,
            interval: None,
            levels: None, order: rng.next_u64(),
        };
        let t = scfg.effective_budget();
        let total = if big { rng.range(50, 300) * 1024 * 1024 } else { rng.range(35, 70) * 1024 * 1024 };
        let style_max = *rng.pick(&[64usize, 4096, t / 4]);
        let mut inserts = Vec::new();
        let mut sum = 0usize;
        let mut i = 0u32;
        while sum < total {
            let size = rng.range(style_max / 2, style_max);
            inserts.push((i.to_be_bytes().to_vec(), vec![i as u8; size]));
            sum += size + 4;
            i += 1;
        }
        check_case(ctx, "real-threshold", idx, &scfg, &inserts, Route::Stream);
    });
    if ctx.only.is_none() {
        ctx.obligation("runs with >= 3 spills", ctx.counter("runs_with_3+_spills") > 0);
        ctx.obligation("reallocation on and off", ctx.tag_count("realloc_policies") == 2);
        ctx.obligation("max_nb_chunks = 1 and large", ctx.has_tag("max_nb_chunks", "1") && (ctx.has_tag("max_nb_chunks", "30") || ctx.has_tag("max_nb_chunks", "25")));
        ctx.obligation("real 10 MiB threshold through the public API", ctx.has_tag("budget_kind", "public-API-10MiB"));
    }
    ctx.finish(
        "exploration",
        "online monitor over insert-return, ChunkCreator::create and chunk Drop events of a monitored chunk creator: a running sum of key+value bytes inserted since the last create must stay <= 2T (T when reallocation is off), live chunks (created - dropped) <= max_nb_chunks + 2 at every create, and every emptying of the in-memory buffer (seen through hook H3) must coincide with a create on the supplied creator. Workloads: entries <= T/4 (always-largest, tiny, uniform, mixed), 20-200 x T inserted with hook-H2 budgets 1 KiB..64 KiB, all (T, allow_realloc, max_nb_chunks 1..30), all three output routes; plus real-threshold runs through the public API (requested 0/1 KiB/10 MiB/16 MiB -> T >= 10 MiB, 35-300 MiB inserted). evaluations = sorter runs; non-trivial = run with >= 3 spills; distinct = distinct (configuration, insert sequence) hash",
        &["entry size <= T/4 as the property requires", "the initial buffer capacity is never above T (as with the library constants 128 KiB / 10 MiB)", "heap high-water is not judged (a correct sorter transiently holds the old and the new buffer while doubling)"],
        J::obj(),
    )
}
