//! C07 — sorter output equals sort-and-merge of all inserts, whatever the configuration.

use std::collections::BTreeMap;
use std::sync::{Arc, Mutex};

use grenad::{ChunkCreator, CursorVec, TempFileChunk};

use super::sorter_common::{gen_inserts, gen_inserts_capped, gen_scfg, parse_tokens, read_back, run_sorter, InsertPlan, Route, SCfg};
use crate::cur::Entry;
use crate::gen::{self, WCfg};
use crate::io_mon::{MonChunkCreator, MonSink, Split, SplitState};
use crate::json::{hex, J};
use crate::merge_mon::{MergeKind, MonMerge};
use crate::prng::Rng;
use crate::verdict::Ctx;

#[derive(Clone, Copy, Debug, PartialEq, Eq)]
pub enum Storage {
    CursorVec,
    Mon,
    TempFile,
}

#[derive(Default, Debug, Clone)]
pub struct Observed {
    pub spills: u64,
    pub chunk_merges: u64,
    pub reallocations: u64,
    pub max_capacity: usize,
    /// chunk generation of each insert (number of spills before it)
    pub generation: Vec<u32>,
    pub oversized_inserts: u64,
    pub max_chunks_held: usize,
}

/// Runs one route and returns (entries, observations from hook H3).
pub fn run_route(scfg: &SCfg, kind: MergeKind, storage: Storage, inserts: &[Entry], route: Route, out_cfg: &WCfg) -> (Result<Vec<Entry>, String>, Observed) {
    let obs = Arc::new(Mutex::new(Observed::default()));
    let obs2 = obs.clone();
    let mut last: (usize, usize, usize, usize) = (0, 0, 0, 0);
    let mut first = true;
    let ins = inserts;
    fn go<CC: ChunkCreator>(
        scfg: &SCfg,
        kind: MergeKind,
        cc: CC,
        inserts: &[Entry],
        route: Route,
        out_cfg: &WCfg,
        obs: Arc<Mutex<Observed>>,
        last: &mut (usize, usize, usize, usize),
        first: &mut bool,
    ) -> Result<Vec<Entry>, String> {
        let (sink, shared) = MonSink::new("out", SplitState::full(), None);
        let mf = MonMerge::with_plan(kind, None);
        let r = run_sorter(scfg, mf, cc, inserts, route, out_cfg, sink, |s, i| {
            let st = s.verif_buffer_state();
            let mut o = obs.lock().unwrap();
            if *first {
                *first = false;
            } else {
                if st.0 > last.0 {
                    o.reallocations += ((st.0 / last.0.max(1)) as f64).log2().round().max(1.0) as u64;
                }
            }
            // a spill happened during this insert iff the entry count did not grow by one
            let spilled = st.2 != last.2 + 1;
            if spilled {
                o.spills += 1;
                if st.3 <= last.3 && last.3 > 0 {
                    o.chunk_merges += 1;
                }
            }
            let g = o.spills as u32;
            o.generation.push(g);
            if 16 + inserts[i].0.len() + inserts[i].1.len() > last.0.max(16) {
                o.oversized_inserts += 1;
            }
            o.max_capacity = o.max_capacity.max(st.0);
            o.max_chunks_held = o.max_chunks_held.max(st.3);
            *last = st;
        });
        match r {
            Ok(v) => {
                if route == Route::Write {
                    let bytes = shared.lock().unwrap().bytes.clone();
                    read_back(&bytes, inserts.len() + 2)
                } else {
                    Ok(v)
                }
            }
            Err(f) => Err(f.render()),
        }
    }
    let r = match storage {
        Storage::CursorVec => go(scfg, kind, CursorVec, ins, route, out_cfg, obs2, &mut last, &mut first),
        Storage::TempFile => go(scfg, kind, TempFileChunk, ins, route, out_cfg, obs2, &mut last, &mut first),
        Storage::Mon => go(scfg, kind, MonChunkCreator::new(None, Split::Full, Split::Full, 0), ins, route, out_cfg, obs2, &mut last, &mut first),
    };
    let o = obs.lock().unwrap().clone();
    (r, o)
}

/// Compares a route's output with the model.
pub fn judge(kind: MergeKind, stable: bool, model: &BTreeMap<Vec<u8>, Vec<Vec<u8>>>, out: &[Entry]) -> Result<(), (String, String)> {
    for w in out.windows(2) {
        if w[0].0 >= w[1].0 {
            return Err(("output-keys-not-ascending".into(), format!("key {} followed by {}", hex(&w[0].0), hex(&w[1].0))));
        }
    }
    let ok: Vec<&Vec<u8>> = out.iter().map(|(k, _)| k).collect();
    let mk: Vec<&Vec<u8>> = model.keys().collect();
    if ok != mk {
        let missing = mk.iter().find(|k| !ok.contains(k)).map(|k| hex(k));
        let extra = ok.iter().find(|k| !mk.contains(k)).map(|k| hex(k));
        return Err(("output-keys-not-the-distinct-inserted-keys".into(), format!("{} distinct keys inserted, {} yielded; first missing {:?}, first extra {:?}", mk.len(), ok.len(), missing, extra)));
    }
    for (k, v) in out {
        let vals = &model[k];
        let exact = kind.apply(k, vals);
        let commutative = matches!(kind, MergeKind::Min | MergeKind::Max | MergeKind::Sum | MergeKind::KeyedMinMax);
        if stable || commutative {
            if v != &exact {
                return Err(("merged-value-wrong".into(), format!("key {}: {} values inserted, expected merge {} got {}", hex(k), vals.len(), hex(&exact), hex(v))));
            }
        } else {
            match kind {
                MergeKind::Concat => {
                    let got = parse_tokens(v).map(|mut s| {
                        s.sort();
                        s
                    });
                    let mut exp: Vec<u32> = vals.iter().filter_map(|t| parse_tokens(t)).flatten().collect();
                    exp.sort();
                    if got.as_ref() != Some(&exp) {
                        return Err(("merged-value-wrong".into(), format!("key {}: (unstable) expected the multiset of {} tokens, got {:?}", hex(k), exp.len(), got.map(|g| g.len()))));
                    }
                }
                _ => {
                    if !vals.contains(v) {
                        return Err(("merged-value-wrong".into(), format!("key {}: (unstable {}) output {} is none of the inserted values", hex(k), kind.name(), hex(v))));
                    }
                }
            }
        }
    }
    Ok(())
}

fn check_case(ctx: &Ctx, stream: &str, idx: u64, scfg: &SCfg, kind: MergeKind, storage: Storage, plan: &InsertPlan, rng: &mut Rng) {
    let out_cfg = gen::gen_cfg(rng, true);
    let t_case = std::time::Instant::now();
    let total_bytes: usize = plan.inserts.iter().map(|(k, v)| k.len() + v.len()).sum();
    let detail = |route: Route, what: &str, obs: String| {
        J::obj()
            .set("sorter", scfg.render())
            .set("merge_function", kind.name())
            .set("chunk_storage", format!("{:?}", storage))
            .set("route", route.name())
            .set("n_inserts", plan.inserts.len())
            .set("inserted_bytes", total_bytes)
            .set("first_inserts", gen::render_entries(&plan.inserts, 8))
            .set("what", what)
            .set("observed", obs)
    };
    let mut outputs: Vec<(Route, Vec<Entry>)> = Vec::new();
    let mut nontrivial = false;
    for route in Route::ALL {
        let (r, o) = run_route(scfg, kind, storage, &plan.inserts, route, &out_cfg);
        ctx.count("sorter_runs", 1);
        ctx.count("spills_observed", o.spills);
        ctx.count("chunk_merges_observed", o.chunk_merges);
        ctx.count("reallocations_observed", o.reallocations);
        ctx.count("inserts_larger_than_the_buffer", o.oversized_inserts);
        ctx.max("max_buffer_capacity", o.max_capacity as u64);
        ctx.max("max_chunks_held_at_once", o.max_chunks_held as u64);
        if o.spills >= 1 {
            nontrivial = true;
            ctx.count("runs_with_spill", 1);
        }
        if o.chunk_merges >= 2 {
            ctx.count("runs_with_2+_chunk_merges", 1);
        }
        if o.reallocations >= 1 {
            ctx.count("runs_with_reallocation", 1);
        }
        // duplicate keys spanning >= 3 chunk generations
        if o.spills >= 2 {
            let mut gens: BTreeMap<&[u8], std::collections::BTreeSet<u32>> = BTreeMap::new();
            for (i, (k, _)) in plan.inserts.iter().enumerate() {
                if let Some(g) = o.generation.get(i) {
                    gens.entry(k).or_default().insert(*g);
                }
            }
            if gens.values().any(|s| s.len() >= 3) {
                ctx.count("runs_with_a_key_spanning_3+_chunks", 1);
            }
        }
        ctx.tag("routes", route.name());
        ctx.tag("storages", &format!("{:?}", storage));
        if scfg.parallel && scfg.stable {
            ctx.count("runs_parallel_and_stable", 1);
        }
        if scfg.parallel && o.spills >= 1 && plan.inserts.len() > 4000 {
            ctx.count("runs_parallel_with_4000+_entries", 1);
        }
        match r {
            Ok(out) => {
                if let Err((sig, obs)) = judge(kind, scfg.stable, &plan.model, &out) {
                    ctx.violation(&sig, stream, idx, detail(route, "sorter output differs from sort-and-merge of the inserts", obs));
                    return;
                }
                outputs.push((route, out));
            }
            Err(e) => {
                ctx.violation("sorter-failed", stream, idx, detail(route, "sorter failed with working components", e));
                return;
            }
        }
    }
    // the three routes agree (exactly when the value is determined; always on keys)
    let deterministic = scfg.stable || matches!(kind, MergeKind::Min | MergeKind::Max | MergeKind::Sum | MergeKind::KeyedMinMax);
    for w in outputs.windows(2) {
        let same = if deterministic { w[0].1 == w[1].1 } else { w[0].1.iter().map(|e| &e.0).eq(w[1].1.iter().map(|e| &e.0)) };
        if !same {
            ctx.violation("routes-disagree", stream, idx, detail(w[1].0, "two output routes yield different content", format!("{} vs {}", w[0].0.name(), w[1].0.name())));
        }
    }
    let mut h = crate::prng::hash_bytes(4, scfg.render().as_bytes());
    for (k, v) in plan.inserts.iter().take(2000) {
        h = crate::prng::mix(&[h, crate::prng::hash_bytes(1, k), crate::prng::hash_bytes(2, v)]);
    }
    ctx.eval(h, nontrivial);
    let ms = t_case.elapsed().as_millis() as u64;
    ctx.max("slowest_scenario_ms", ms);
    if ms > 3000 {
        ctx.tag("slow_scenarios(>3s)", &format!("{}ms n={} {} {:?} {}", ms, plan.inserts.len(), scfg.render(), storage, kind.name()));
    }
    ctx.sample(|| J::obj().set("sorter", scfg.render()).set("merge_function", kind.name()).set("chunk_storage", format!("{:?}", storage)).set("n_inserts", plan.inserts.len()).set("first_inserts", gen::render_entries(&plan.inserts, 4)));
}

pub fn pick_kind(rng: &mut Rng, stable: bool) -> MergeKind {
    let _ = stable;
    *rng.pick(&[MergeKind::Concat, MergeKind::Concat, MergeKind::Concat, MergeKind::First, MergeKind::Last, MergeKind::Min, MergeKind::Max, MergeKind::Sum, MergeKind::KeyedMinMax, MergeKind::KeyedMinMax])
}

pub fn run(ctx: &Ctx, part: &str) -> i32 {
    if part.is_empty() || part == "main" {
        let n = ctx.n(12_000, 200_000);
        ctx.par("small", n, true, |idx, rng| {
            let mut scfg = gen_scfg(rng);
            scfg.parallel = scfg.parallel && rng.chance(1, 2);
            let kind = pick_kind(rng, scfg.stable);
            let storage = match rng.below(12) {
                0 => Storage::TempFile,
                1..=5 => Storage::Mon,
                _ => Storage::CursorVec,
            };
            let universe = *rng.pick(&[1usize, 2, 5, 20, 100, 1000]);
            // volume: 0..50 spills
            let volume = scfg.budget * *rng.pick(&[0usize, 1, 2, 4, 10, 30]) + rng.range(0, 200);
            let max_val = *rng.pick(&[0usize, 8, 40, 200]);
            let avg = 4 + (max_val / 3).max(3) + 6;
            let count = (volume / avg).clamp(0, 6000);
            let big = if rng.chance(1, 4) { Some((rng.range(3, 40), (scfg.initial.unwrap_or(scfg.budget) * rng.range(1, 4)).min(60_000))) } else { None };
            let tokens = kind == MergeKind::Concat;
            let plan = gen_inserts_capped(rng, count, universe, max_val, tokens, big, volume + 4 * scfg.budget);
            check_case(ctx, "small", idx, &scfg, kind, storage, &plan, rng);
        });
    }
    if part.is_empty() || part == "main" {
        // zero-length entries: the empty key inserted many times with empty and non-empty values
        // (entries that occupy no byte in the buffer), stable sort, order-revealing merges
        let n = ctx.n(300, 6000);
        ctx.par("empty-key", n, true, |idx, rng| {
            let mut scfg = gen_scfg(rng);
            scfg.parallel = idx % 7 == 0;
            scfg.stable = true;
            let kind = [MergeKind::First, MergeKind::Last, MergeKind::Concat][idx as usize % 3];
            let count = rng.range(2, 400);
            let mut inserts: Vec<Entry> = Vec::new();
            let mut model: BTreeMap<Vec<u8>, Vec<Vec<u8>>> = BTreeMap::new();
            for seq in 0..count {
                let k: Vec<u8> = match rng.below(4) {
                    0 | 1 => vec![],
                    2 => vec![0],
                    _ => vec![rng.below(3) as u8, 1],
                };
                let v: Vec<u8> = if rng.chance(1, 2) {
                    vec![]
                } else if kind == MergeKind::Concat {
                    super::sorter_common::token(seq as u32, rng.below(4))
                } else {
                    vec![seq as u8, (seq >> 8) as u8]
                };
                model.entry(k.clone()).or_default().push(v.clone());
                inserts.push((k, v));
            }
            let plan = InsertPlan { inserts, model };
            check_case(ctx, "empty-key", idx, &scfg, kind, Storage::CursorVec, &plan, rng);
        });
    }
    if part.is_empty() || part == "main" {
        // more than 256 live chunks: tiny budget, no chunk merging
        let n = ctx.n(16, 160);
        ctx.par("many-chunks", n, true, |idx, rng| {
            let mut scfg = gen_scfg(rng);
            scfg.parallel = false;
            scfg.budget = 256;
            scfg.initial = Some(64);
            scfg.allow_realloc = rng.chance(1, 2);
            scfg.max_nb_chunks = *rng.pick(&[usize::MAX, 1000]);
            scfg.codec = Some(grenad::CompressionType::None);
            scfg.levels = Some(0);
            scfg.block_size = None;
            // what > 256 live chunks can break is the order of the values of a key: stable sort and an
            // order-revealing merge function for three cases out of four
            let kind = if idx % 4 == 3 { pick_kind(rng, scfg.stable) } else { [MergeKind::Concat, MergeKind::First, MergeKind::Last][idx as usize % 3] };
            if idx % 4 != 3 {
                scfg.stable = true;
            }
            let uni = *rng.pick(&[2usize, 9, 400]);
            let plan = gen_inserts(rng, rng.clone().range(3000, 4500), uni, 12, kind == MergeKind::Concat, None);
            check_case(ctx, "many-chunks", idx, &scfg, kind, Storage::CursorVec, &plan, rng);
        });
    }
    if part.is_empty() || part == "main" || part == "par" {
        // parallel sort with > 4000 entries per spilled run
        let n = ctx.n(80, 1200);
        ctx.par("parallel", n, true, |idx, rng| {
            let mut scfg = gen_scfg(rng);
            scfg.parallel = true;
            scfg.budget = 262_144;
            scfg.initial = Some(*rng.pick(&[16usize, 4096, 262_144]));
            scfg.allow_realloc = true;
            scfg.stable = rng.chance(2, 3);
            scfg.levels = Some(rng.range(0, 2) as u8);
            scfg.codec = Some(*rng.pick(&[grenad::CompressionType::None, grenad::CompressionType::Snappy]));
            let kind = pick_kind(rng, scfg.stable);
            let (cnt, uni) = (rng.range(12_000, 40_000), *rng.pick(&[3usize, 50, 5000]));
            let plan = gen_inserts(rng, cnt, uni, 10, kind == MergeKind::Concat, None);
            check_case(ctx, "parallel", idx, &scfg, kind, Storage::CursorVec, &plan, rng);
        });
    }
    if part.is_empty() || part == "main" {
        // real thresholds through the public API (no hook H2): 10 MiB budget, 12-60 MiB inserted
        let n = ctx.n(10, 200);
        ctx.par("real-threshold", n, true, |idx, rng| {
            let scfg = SCfg {
                budget: *rng.pick(&[0usize, 1024, 10 * 1024 * 1024, usize::MAX, 1usize << 62]),
                raw: false,
                initial: None,
                allow_realloc: rng.chance(1, 2),
                max_nb_chunks: *rng.pick(&[1usize, 2, 3, 25]),
                stable: rng.chance(1, 2),
                parallel: rng.chance(1, 3),
                codec: Some(*rng.pick(&[grenad::CompressionType::None, grenad::CompressionType::Snappy, grenad::CompressionType::Lz4])),
                level: None,
                block_size: None,
                interval: None,
                levels: if rng.chance(1, 2) { None } else { Some(2) },
                order: rng.next_u64(),
            };
            let mut scfg = scfg;
            if scfg.budget > (1usize << 40) {
                // a budget no machine has: only meaningful when the buffer may grow on demand
                scfg.allow_realloc = true;
            }
            let kind = pick_kind(rng, scfg.stable);
            let total = rng.range(12, 60) * 1024 * 1024;
            let max_val = *rng.pick(&[200usize, 2000, 20_000]);
            let count = total / (max_val / 2 + 20);
            let uni = *rng.pick(&[10usize, 1000, 100_000]);
            let plan = gen_inserts(rng, count, uni, max_val, kind == MergeKind::Concat, None);
            let storage = if rng.chance(1, 3) { Storage::TempFile } else { Storage::CursorVec };
            check_case(ctx, "real-threshold", idx, &scfg, kind, storage, &plan, rng);
        });
    }
    if part.is_empty() || part == "main" {
        // library defaults: Sorter::new / Sorter::builder(..).build() (1 GiB budget, temp-file chunks)
        let n = ctx.n(40, 400);
        ctx.par("defaults", n, true, |idx, rng| {
            let kind = pick_kind(rng, true);
            let uni = *rng.pick(&[1usize, 7, 300]);
            let count = rng.range(0, 3000);
            let plan = gen_inserts(rng, count, uni, 50, kind == MergeKind::Concat, None);
            let r = crate::verdict::guarded(|| -> Result<Vec<Entry>, String> {
                let mf = MonMerge::with_plan(kind, None);
                let mut sorter = if idx % 2 == 0 { grenad::Sorter::new(mf) } else { grenad::Sorter::builder(mf).build() };
                for (k, v) in &plan.inserts {
                    sorter.insert(k, v).map_err(|e| format!("insert: {}", e))?;
                }
                let mut out = Vec::new();
                match idx % 3 {
                    0 => {
                        let mut it = sorter.into_stream_merger_iter().map_err(|e| format!("into_stream_merger_iter: {}", e))?;
                        while let Some((k, v)) = it.next().map_err(|e| format!("next: {}", e))? {
                            out.push((k.to_vec(), v.to_vec()));
                        }
                    }
                    1 => {
                        let mut w = grenad::Writer::memory();
                        sorter.write_into_stream_writer(&mut w).map_err(|e| format!("write_into_stream_writer: {}", e))?;
                        let bytes = w.into_inner().map_err(|e| e.to_string())?;
                        out = read_back(&bytes, plan.inserts.len() + 2)?;
                    }
                    _ => {
                        let cursors = sorter.into_reader_cursors().map_err(|e| format!("into_reader_cursors: {}", e))?;
                        let mut b = grenad::Merger::builder(MonMerge::with_plan(kind, None));
                        b.extend(cursors);
                        let mut it = b.build().into_stream_merger_iter().map_err(|e| format!("merger: {}", e))?;
                        while let Some((k, v)) = it.next().map_err(|e| format!("next: {}", e))? {
                            out.push((k.to_vec(), v.to_vec()));
                        }
                    }
                }
                Ok(out)
            });
            ctx.count("default_configuration_runs", 1);
            let detail = |what: &str, obs: String| J::obj().set("sorter", "library defaults (Sorter::new / Sorter::builder().build())").set("merge_function", kind.name()).set("n_inserts", plan.inserts.len()).set("first_inserts", gen::render_entries(&plan.inserts, 6)).set("what", what).set("observed", obs);
            match r {
                Ok(Ok(out)) => {
                    if let Err((sig, obs)) = judge(kind, true, &plan.model, &out) {
                        ctx.violation(&sig, "defaults", idx, detail("sorter output differs from sort-and-merge of the inserts", obs));
                    }
                }
                Ok(Err(e)) => ctx.violation("sorter-failed", "defaults", idx, detail("sorter failed with working components", e)),
                Err(p) => ctx.violation("sorter-failed", "defaults", idx, detail("sorter panicked", p)),
            }
            ctx.eval(crate::prng::mix(&[idx, 0xDEF, plan.inserts.len() as u64]), false);
        });
    }
    if ctx.only.is_none() && (part.is_empty() || part == "main") {
        ctx.obligation("runs with >= 1 spill", ctx.counter("runs_with_spill") > 0);
        ctx.obligation("runs with >= 2 chunk merges", ctx.counter("runs_with_2+_chunk_merges") > 0);
        ctx.obligation("runs with >= 1 reallocation", ctx.counter("runs_with_reallocation") > 0);
        ctx.obligation("an entry larger than the buffer", ctx.counter("inserts_larger_than_the_buffer") > 0);
        ctx.obligation("duplicate keys spanning >= 3 chunks", ctx.counter("runs_with_a_key_spanning_3+_chunks") > 0);
        ctx.obligation("every output route", ctx.tag_count("routes") == 3);
        ctx.obligation("every chunk storage kind", ctx.tag_count("storages") == 3);
        ctx.obligation("parallel + stable", ctx.counter("runs_parallel_and_stable") > 0);
        ctx.obligation("parallel sort of > 4000 entries", ctx.counter("runs_parallel_with_4000+_entries") > 0);
    }
    ctx.finish(
        "exploration",
        "insert sequences over key universes of 1..100000 keys (duplicates, any order, values from empty to several times the buffer) are fed to three sorters with the same configuration and drained by into_stream_merger_iter, write_into_stream_writer (read back) and into_reader_cursors re-merged in the returned order; configurations: hook-H2 budgets 256 B..256 KiB with initial capacity 16 B..budget (0..50 spills, chunk merges with max_nb_chunks 1..25, reallocations), stable/unstable, sequential/parallel (dedicated stream with 12k-40k entries so rayon splits), chunk codec/level/block/interval/levels, chunk storage CursorVec / monitored in-memory chunks / real temp files, merge functions concat, first, last, min, max, wrapping-sum; plus real-threshold runs through the public API (10 MiB budget, 12-60 MiB inserted). Oracle: BTreeMap<key, values in insertion order>: keys = distinct inserted keys ascending; value = fold in insertion order (stable, exact bytes), multiset of sequence-numbered tokens / one of the inserted values (unstable), exact for commutative functions; the three routes agree. evaluations = scenarios (3 sorter runs each); non-trivial = scenario with >= 1 spill; distinct = distinct (configuration, inserts) hash",
        &["merge functions are associative and return a lone value unchanged, as the property assumes", "rayon schedules are sampled (thread counts, oversubscription), not controlled", "spills, chunk merges and reallocations are observed through hook H3"],
        J::obj(),
    )
}
