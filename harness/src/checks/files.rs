//! File workload shared by the reader-side checks: structured + random + deep cases, written by
//! the real writer and decoded by the independent decoder (for layout information).

use crate::decoder::{self, DFile};
use crate::gen::{self, Entry, WCfg};
use crate::prng::Rng;
use crate::verdict::{Ctx, Tier};

pub struct Built<'a> {
    pub stream: &'a str,
    pub idx: u64,
    pub label: String,
    pub cfg: WCfg,
    pub entries: Vec<Entry>,
    pub bytes: Vec<u8>,
    pub df: Option<DFile>,
}

impl<'a> Built<'a> {
    pub fn block_first(&self) -> Vec<usize> {
        self.df.as_ref().map(|d| d.data_block_first_entry()).unwrap_or_default()
    }
    pub fn multi_deep(&self) -> bool {
        self.df.as_ref().map(|d| d.max_deep_index_blocks() >= 2).unwrap_or(false)
    }
    pub fn nontrivial(&self) -> bool {
        self.df.as_ref().map(|d| d.data_blocks.len() >= 2).unwrap_or(false)
    }
}

pub struct Sizes {
    pub random: (usize, usize),
    pub deep: (usize, usize),
    /// restrict to index_levels = 0 (V1 files)
    pub level0_only: bool,
    /// skip the structured cases with index_levels = 255 (257 block loads per fresh seek)
    pub max_levels: u8,
    pub budget: usize,
}

fn prepare<'a>(ctx: &Ctx, stream: &'a str, idx: u64, label: String, mut cfg: WCfg, entries: Vec<Entry>, sizes: &Sizes) -> Option<Built<'a>> {
    if sizes.level0_only {
        cfg.levels = Some(0);
    } else if cfg.eff_levels() > sizes.max_levels as usize {
        cfg.levels = Some(sizes.max_levels);
    }
    match gen::build_file(&cfg, &entries) {
        Ok(bytes) => {
            let df = decoder::decode(&bytes, None).ok();
            if let Some(d) = &df {
                ctx.tag("layouts", &d.layout_class());
                if d.max_deep_index_blocks() >= 2 {
                    ctx.count("files_with_multi_block_deep_index", 1);
                }
            }
            ctx.tag("codecs", gen::codec_name(cfg.codec));
            ctx.count("files", 1);
            Some(Built { stream, idx, label, cfg, entries, bytes, df })
        }
        Err(_) => {
            ctx.count("files_unbuildable_skipped", 1);
            None
        }
    }
}

pub fn for_each_file<F>(ctx: &Ctx, sizes: &Sizes, f: F)
where
    F: Fn(&Built, &mut Rng) + Sync,
{
    let structured = gen::structured_cases(ctx.tier == Tier::Thorough);
    ctx.par("structured", structured.len(), false, |idx, rng| {
        let c = &structured[idx as usize];
        if c.entries.iter().any(|(k, v)| k.len() + v.len() > 200_000) && sizes.budget < 200_000 {
            return;
        }
        if let Some(b) = prepare(ctx, "structured", idx, c.label.clone(), c.cfg.clone(), c.entries.clone(), sizes) {
            f(&b, rng);
        }
    });
    let n = ctx.n(sizes.random.0, sizes.random.1);
    ctx.par("random", n, true, |idx, rng| {
        let (entries, cfg, shape) = gen::gen_file_case(rng, sizes.budget);
        if let Some(b) = prepare(ctx, "random", idx, format!("random/{:?}", shape), cfg, entries, sizes) {
            f(&b, rng);
        }
    });
    if !sizes.level0_only {
        let n = ctx.n(sizes.deep.0, sizes.deep.1);
        ctx.par("deep", n, true, |idx, rng| {
            let levels = *rng.pick(&[2u8, 2, 3, 3, 4, 7]);
            let cnt = rng.range(20, 140);
            let (entries, cfg) = gen::gen_deep_case(rng, levels, cnt);
            if let Some(b) = prepare(ctx, "deep", idx, format!("deep/L{}", levels), cfg, entries, sizes) {
                f(&b, rng);
            }
        });
    }
}
