//! C16 — I/O per cursor operation is bounded by index depth, not by file size.

use std::collections::{BTreeMap, HashMap};
use std::sync::{Arc, Mutex};

use grenad::Reader;

use super::hist::{model_step, HistGen, Layout};
use crate::cur::{apply, Entry, Op};
use crate::decoder;
use crate::gen::{self, KeyShape, ValShape, WCfg};
use crate::io_mon::MonSource;
use crate::json::J;
use crate::model::{Model, Pos};
use crate::prng::Rng;
use crate::verdict::{guarded, Ctx, Tier};

fn check_file(ctx: &Ctx, stream: &str, idx: u64, label: &str, cfg: &WCfg, entries: &[Entry], rng: &mut Rng, n_ops: usize, maxes: &Mutex<BTreeMap<String, u64>>) {
    let Ok(bytes) = gen::build_file(cfg, entries) else {
        ctx.count("files_unbuildable_skipped", 1);
        return;
    };
    let Ok(df) = decoder::decode(&bytes, None) else {
        ctx.count("files_undecodable_skipped", 1);
        return;
    };
    let levels = df.trailer.levels as u64;
    let bound = 2 * (levels + 2);
    let sizes: HashMap<u64, u64> = df.blocks.iter().map(|b| (b.offset, b.stored_len + 8)).collect();
    let file_len = bytes.len() as u64;
    let data = Arc::new(bytes);
    let detail = |what: &str, obs: String| J::obj().set("case", label).set("config", cfg.render()).set("n_entries", entries.len()).set("file_len", file_len).set("n_blocks", df.blocks.len()).set("index_levels", levels).set("what", what).set("observed", obs);
    // ---- opening reads only the trailer
    let src = MonSource::logging(data.clone());
    let log = src.log.clone();
    let opened = guarded(|| Reader::new(src));
    let reads: Vec<(u64, usize, usize)> = std::mem::take(&mut log.lock().unwrap().reads);
    let total: usize = reads.iter().map(|r| r.2).sum();
    ctx.max("open_bytes_read_max", total as u64);
    ctx.count("opens_monitored", 1);
    for (pos, _want, got) in &reads {
        if *got > 0 && (*pos < file_len.saturating_sub(22) || pos + *got as u64 > file_len) {
            ctx.violation("open-reads-outside-trailer", stream, idx, detail("Reader::new read bytes outside the final 22 bytes", format!("read of {} bytes at offset {} (file length {})", got, pos, file_len)));
            break;
        }
    }
    if total > 44 {
        ctx.violation("open-reads-too-much", stream, idx, detail("Reader::new read more than twice the trailer size", format!("{} bytes in {} reads", total, reads.len())));
    }
    let reader = match opened {
        Ok(Ok(r)) => r,
        _ => {
            ctx.count("files_unopenable_skipped", 1);
            return;
        }
    };
    let mut cursor = match guarded(|| reader.into_cursor()) {
        Ok(Ok(c)) => c,
        _ => return,
    };
    // into_cursor must not load anything either? (not stated by the property: measured only)
    let n0: usize = log.lock().unwrap().reads.drain(..).map(|r| r.2).sum();
    ctx.max("into_cursor_bytes_read_max(informational)", n0 as u64);
    // ---- operations
    let layout = Layout::new(Some(&df), entries.len());
    let m = Model::new(entries);
    let mut g = HistGen::new(entries, &layout);
    let mut pos = Pos::Fresh;
    let mut clone_slot: Option<grenad::ReaderCursor<MonSource>> = None;
    let mut local_max: BTreeMap<String, u64> = BTreeMap::new();
    let mut worst = 0u64;
    for step in 0..n_ops {
        let op = g.next_op(rng, pos);
        if matches!(op, Op::Current) {
            continue;
        }
        // sometimes continue on a clone (same position, independent state)
        if step % 97 == 96 {
            clone_slot = Some(cursor.clone());
        }
        if step % 97 == 50 {
            if let Some(c) = clone_slot.take() {
                cursor = c;
                pos = Pos::Unspecified;
                let _ = apply(&mut cursor, &Op::Reset);
                pos = Pos::Fresh;
                let _ = pos;
            }
        }
        log.lock().unwrap().reads.clear();
        let r = apply(&mut cursor, &op);
        let reads: Vec<(u64, usize, usize)> = std::mem::take(&mut log.lock().unwrap().reads);
        pos = model_step(&m, pos, &op).1;
        if matches!(op, Op::Reopen) {
            // a constructor may position itself: its I/O is not an operation of the property
            continue;
        }
        if matches!(op, Op::Reset) {
            if !reads.is_empty() {
                ctx.violation("reset-does-io", stream, idx, detail("reset performed reads", format!("{} reads", reads.len())));
            }
            continue;
        }
        let mut loads = 0u64;
        let mut allowed = 0u64;
        let mut bytes_read = 0u64;
        for (p, _w, got) in &reads {
            bytes_read += *got as u64;
            if let Some(sz) = sizes.get(p) {
                if *got > 0 {
                    loads += 1;
                    allowed += sz;
                }
            }
        }
        ctx.count("ops_monitored", 1);
        let (key, val) = if levels <= 8 || levels == 16 || levels == 64 || levels == 255 {
            (format!("max_block_loads[{}][levels={}](bound {})", op.kind(), levels, bound), loads)
        } else {
            (format!("max_block_loads_permille_of_bound[{}][other levels]", op.kind()), loads * 1000 / bound)
        };
        let e = local_max.entry(key).or_insert(0);
        if val > *e {
            *e = val;
        }
        if loads * 1000 / bound.max(1) > worst {
            worst = loads * 1000 / bound;
        }
        if loads > bound {
            ctx.violation(
                "too-many-block-loads",
                stream,
                idx,
                detail("a single cursor operation loaded more than 2 x (index levels + 2) blocks", format!("{} loaded {} blocks (bound {}) at step {}; result {:?}", op.render(), loads, bound, step, r.as_ref().map(|e| e.is_some()))),
            );
            break;
        }
        // a fixed read-ahead allowance per load keeps buffered readers legal; what is bounded is
        // the dependence on the file size
        let slack = 65_536 * (loads + 1);
        ctx.max("max_bytes_read_beyond_loaded_blocks_in_one_operation", bytes_read.saturating_sub(allowed));
        if bytes_read > allowed + slack {
            ctx.violation(
                "reads-beyond-loaded-blocks",
                stream,
                idx,
                detail("a single cursor operation read far more bytes than the blocks it loaded hold (more than a 64 KiB read-ahead allowance per load)", format!("{} read {} bytes, the {} blocks it loaded hold {} bytes", op.render(), bytes_read, loads, allowed)),
            );
            break;
        }
        if r.is_err() {
            // errors are C03's business; keep monitoring I/O only
            ctx.count("ops_returning_error(not judged here)", 1);
        }
    }
    {
        let mut gm = maxes.lock().unwrap();
        for (k, v) in local_max {
            let e = gm.entry(k).or_insert(0);
            if v > *e {
                *e = v;
            }
        }
    }
    ctx.max("max_loads_permille_of_bound", worst);
    ctx.max("max_entries_in_a_file", entries.len() as u64);
    ctx.max("max_data_blocks_in_a_file", df.data_blocks.len() as u64);
    ctx.tag("index_levels_seen", &levels.to_string());
    ctx.eval(crate::prng::mix(&[gen::case_hash(cfg, &entries[..entries.len().min(50)]), entries.len() as u64]), df.data_blocks.len() >= 2);
    ctx.sample(|| detail("sample", format!("{} operations monitored", n_ops)));
}

pub fn run(ctx: &Ctx) -> i32 {
    let maxes: Mutex<BTreeMap<String, u64>> = Mutex::new(BTreeMap::new());
    let n_ops = ctx.tier.pick(400, 1500);
    // structured: every levels value of interest on a multi-block file
    let lv: Vec<u8> = vec![0, 1, 2, 3, 4, 5, 6, 7, 8, 16, 64, 255];
    ctx.par("levels", lv.len() * 2, false, |idx, rng| {
        let levels = lv[idx as usize / 2];
        let mut cfg = WCfg::plain();
        cfg.levels = Some(levels);
        cfg.block_size = Some(1024);
        cfg.interval = Some(if idx % 2 == 0 { 1 } else { 8 });
        let entries = gen::gen_entries(rng, KeyShape::K3, ValShape::Tiny, 150);
        check_file(ctx, "levels", idx, &format!("levels/{}", levels), &cfg, &entries, rng, n_ops, &maxes);
    });
    let n = ctx.n(4000, 120_000);
    ctx.par("random", n, true, |idx, rng| {
        let (entries, cfg, shape) = gen::gen_file_case(rng, 50_000);
        check_file(ctx, "random", idx, &format!("random/{:?}", shape), &cfg, &entries, rng, n_ops, &maxes);
    });
    let n = ctx.n(1500, 50_000);
    ctx.par("deep", n, true, |idx, rng| {
        let levels = *rng.pick(&[2u8, 2, 3, 3, 4, 7, 16]);
        let cnt = rng.range(20, 160);
        let (entries, cfg) = gen::gen_deep_case(rng, levels, cnt);
        check_file(ctx, "deep", idx, "deep", &cfg, &entries, rng, n_ops, &maxes);
    });
    // big files: I/O must not grow with the number of entries
    let sizes: Vec<usize> = if ctx.tier == Tier::Thorough { vec![200_000, 500_000, 1_000_000, 2_000_000] } else { vec![50_000, 200_000, 400_000] };
    ctx.par("big", sizes.len() * 6, true, |idx, rng| {
        let n = sizes[idx as usize % sizes.len()];
        let entries: Vec<Entry> = (0..n as u32).map(|i| (i.to_be_bytes().to_vec(), vec![(i % 7) as u8; (i % 5) as usize])).collect();
        let mut cfg = WCfg::plain();
        cfg.levels = Some(((idx / sizes.len() as u64) % 3) as u8 * 2);
        cfg.block_size = Some(*rng.pick(&[1024usize, 8192]));
        cfg.codec = gen::codecs()[idx as usize % gen::codecs().len()];
        cfg.level = 1;
        check_file(ctx, "big", idx, &format!("big/{}", n), &cfg, &entries, rng, n_ops * 2, &maxes);
    });
    let mut per = J::obj();
    for (k, v) in maxes.lock().unwrap().iter() {
        per.put(k, *v);
    }
    if ctx.only.is_none() {
        ctx.obligation("index levels 0, 1, 2, 3, 8, 16, 64 and 255 monitored", ["0", "1", "2", "3", "8", "16", "64", "255"].iter().all(|l| ctx.has_tag("index_levels_seen", l)));
        ctx.obligation("a file with >= 50000 entries", ctx.inner_max("max_entries_in_a_file") >= 50_000);
    }
    ctx.finish(
        "exploration",
        "online checker over the read trace of a monitored source, windowed by public-call/return: Reader::new may only read bytes of the final 22 bytes and at most 44 bytes in total; for each single cursor operation (first, last, next, prev, GE, LE, EQ) issued along generated histories (fresh, reset, warm, cloned cursors, scans sized to cross block and index-block edges) a block load = a read starting at a block's first byte (block offsets and sizes from the independent decoder); loads must be <= 2 x (levels + 2) and bytes read <= sum of (stored size + 8) of the loaded blocks plus a fixed 64 KiB read-ahead allowance per load (so that I/O cannot grow with the file size). Files: index levels 0..8/16/64/255, random and deep layouts, and big files (quick: up to 200000 entries; thorough: up to 2000000). evaluations = files (n operations each); non-trivial = file with >= 2 data blocks; distinct = distinct (config, first entries, entry count)",
        &["a load is a read that starts at a block's first byte, however the library seeks", "operation results are not judged here (C02/C03 do that)"],
        J::obj().set("max_block_loads_per_operation_kind_and_levels", per),
    )
}
