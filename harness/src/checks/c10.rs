//! C10 — version-1 files remain readable with identical results.

use std::io::Cursor;
use std::ops::Bound;

use grenad::{FileVersion, Reader};

use super::files::{for_each_file, Sizes};
use super::query::{check_prefix, check_range, check_seeks, gen_bound, gen_prefixes, Q};
use crate::cur::{first_diff, scan_backward, scan_forward};
use crate::decoder::MAGIC_V1;
use crate::gen;
use crate::io_mon::{MonSource, Split, SplitState};
use crate::json::J;
use crate::verdict::{guarded, Ctx};

/// Re-encodes a levels=0 V2 file as a V1 file: same body, 21-byte V1 trailer.
pub fn to_v1(bytes: &[u8]) -> Vec<u8> {
    let n = bytes.len();
    let t = &bytes[n - 22..];
    let mut out = bytes[..n - 22].to_vec();
    out.extend_from_slice(&t[0..8]); // root offset (LE)
    out.push(t[8]); // codec
    out.extend_from_slice(&t[9..17]); // count (LE)
    out.extend_from_slice(&MAGIC_V1.to_le_bytes());
    out
}

pub fn run(ctx: &Ctx) -> i32 {
    let sizes = Sizes { random: (3000, 120_000), deep: (0, 0), level0_only: true, max_levels: 0, budget: 40_000 };
    let per_file = ctx.tier.pick(20, 120);
    for_each_file(ctx, &sizes, |b, rng| {
        let v1 = to_v1(&b.bytes);
        let q = Q { ctx, stream: b.stream, idx: b.idx, label: &b.label, cfg: b.cfg.render(), entries: &b.entries, sig: "v1-" };
        // open: version, count, codec
        match guarded(|| Reader::new(Cursor::new(&v1[..]))) {
            Ok(Ok(r)) => {
                if r.file_version() != FileVersion::FormatV1 {
                    q.viol("wrong-version", "V1 trailer not opened as FormatV1", "file_version()".into(), "FormatV1".into(), format!("{:?}", r.file_version()));
                }
                if r.len() != b.entries.len() as u64 {
                    q.viol("wrong-count", "stored entry count not reported", "len()".into(), b.entries.len().to_string(), r.len().to_string());
                }
                if r.compression_type() != b.cfg.codec {
                    q.viol("wrong-codec", "stored codec not reported", "compression_type()".into(), format!("{:?}", b.cfg.codec), format!("{:?}", r.compression_type()));
                }
            }
            Ok(Err(e)) => {
                q.viol("open-failed", "V1 file does not open", "Reader::new".into(), "Ok".into(), e.to_string());
                return;
            }
            Err(p) => {
                q.viol("open-failed", "opening a V1 file panicked", "Reader::new".into(), "Ok".into(), p);
                return;
            }
        }
        // a trailer whose fields are all non-zero and distinct is the common case here: count and
        // root offset differ unless the file is empty.
        if !b.entries.is_empty() {
            ctx.count("v1_files_with_distinct_nonzero_count_and_offset", 1);
        }
        // every third file is also opened and scanned through a source that splits or interrupts
        // reads (V1 results must not depend on that either)
        if b.idx % 3 == 0 {
            let data = std::sync::Arc::new(v1.clone());
            for split in [Split::One, Split::Rand, Split::IntrEvery(2), Split::Chaos] {
                let qs = Q { ctx, stream: b.stream, idx: b.idx, label: &b.label, cfg: b.cfg.render(), entries: &b.entries, sig: "v1-split-" };
                let seed = rng.next_u64();
                let src = MonSource::new("source", data.clone(), SplitState::new(split.clone(), seed), None);
                ctx.count("v1_opens_under_read_schedules", 1);
                match guarded(|| Reader::new(src)) {
                    Ok(Ok(r)) => {
                        if r.file_version() != FileVersion::FormatV1 || r.len() != b.entries.len() as u64 || r.compression_type() != b.cfg.codec {
                            qs.viol("metadata-differs", "V1 metadata differs under a split/interrupting source", split.name(), format!("V1, {} entries, {:?}", b.entries.len(), b.cfg.codec), format!("{:?}, {} entries, {:?}", r.file_version(), r.len(), r.compression_type()));
                        } else if let Ok(Ok(mut c)) = guarded(|| r.into_cursor()) {
                            match scan_forward(&mut c, b.entries.len() + 2) {
                                Ok(got) => {
                                    if let Some(d) = first_diff(&b.entries, &got) {
                                        qs.viol("forward-scan-differs", "V1 scan differs under a split/interrupting source", split.name(), "inserted list".into(), d);
                                    }
                                }
                                Err(e) => qs.viol("forward-scan-failed", "V1 scan fails under a split/interrupting source", split.name(), "inserted list".into(), e),
                            }
                        }
                    }
                    Ok(Err(e)) => qs.viol("open-failed", "V1 file does not open under a split/interrupting source", split.name(), "Ok".into(), e.to_string()),
                    Err(p) => qs.viol("open-failed", "opening panicked", split.name(), "Ok".into(), p),
                }
            }
        }
        // cursor histories (scans across block edges, seeks, resets, clones, a third of them over a
        // source whose clones share one file position) judged by C03's model
        {
            let layout = super::hist::Layout::new(b.df.as_ref(), b.entries.len());
            let states = std::sync::Mutex::new(std::collections::HashSet::new());
            let hashes = std::collections::HashMap::new();
            for _ in 0..2 {
                super::c03::random_history_on(ctx, b, &v1, &layout, rng, 120, &states, &hashes);
                ctx.count("v1_cursor_histories", 1);
            }
        }
        let mk = || Cursor::new(&v1[..]);
        let limit = b.entries.len() + 2;
        match super::query::open_cursor(mk()) {
            Ok(mut c) => match scan_forward(&mut c, limit) {
                Ok(got) => {
                    if let Some(d) = first_diff(&b.entries, &got) {
                        q.viol("forward-scan-differs", "forward scan of the V1 file differs", "scan".into(), "inserted list".into(), d);
                    }
                }
                Err(e) => q.viol("forward-scan-failed", "forward scan of the V1 file failed", "scan".into(), "inserted list".into(), e),
            },
            Err(e) => q.viol("open-failed", "cursor on V1 file", "into_cursor".into(), "Ok".into(), e),
        }
        if let Ok(mut c) = super::query::open_cursor(mk()) {
            match scan_backward(&mut c, limit) {
                Ok(mut got) => {
                    got.reverse();
                    if let Some(d) = first_diff(&b.entries, &got) {
                        q.viol("backward-scan-differs", "backward scan of the V1 file differs", "scan".into(), "inserted list".into(), d);
                    }
                }
                Err(e) => q.viol("backward-scan-failed", "backward scan of the V1 file failed", "scan".into(), "inserted list".into(), e),
            }
        }
        let keys: Vec<&[u8]> = b.entries.iter().map(|(k, _)| k.as_slice()).collect();
        let probes = gen::probes(rng, &keys, per_file);
        check_seeks(&q, mk, &probes, &b.block_first());
        for _ in 0..per_file {
            let (sk, ek) = (rng.below(3), rng.below(3));
            let (s, e): (Bound<Vec<u8>>, Bound<Vec<u8>>) = (gen_bound(rng, sk, &probes), gen_bound(rng, ek, &probes));
            check_range(&q, mk, &s, &e);
        }
        for p in gen_prefixes(rng, &b.entries, per_file) {
            check_prefix(&q, mk, &p);
        }
        ctx.eval(gen::case_hash(&b.cfg, &b.entries), b.nontrivial());
        ctx.sample(|| {
            J::obj().set("case", b.label.as_str()).set("config", b.cfg.render()).set("n_entries", b.entries.len()).set("v1_trailer_hex", crate::json::hex(&v1[v1.len() - 21..]))
        });
    });
    if ctx.only.is_none() {
        for c in gen::codecs() {
            ctx.obligation(&format!("codec {} in a V1 file", gen::codec_name(c)), ctx.has_tag("codecs", gen::codec_name(c)));
        }
        ctx.obligation("V1 files with distinct non-zero count and offset", ctx.counter("v1_files_with_distinct_nonzero_count_and_offset") > 0);
    }
    ctx.finish(
        "exploration",
        "V1 files are constructed by the harness from files written by the real writer with index_levels=0: the 22-byte V2 trailer is replaced by a hand-encoded 21-byte V1 trailer (root offset u64 LE, codec u8, count u64 LE, magic 0x76324D4C); open (version, count, codec), forward/backward scans, GE/LE/EQ probes, range and prefix iterators are compared with the reference model (= what the V2 file of the same content must return, checked by C01-C05). non-trivial = file with >= 2 data blocks; distinct = distinct (config, entries) hash",
        &["no historical V1 writer is available offline: the V1 body is assumed to be the V2 body with a single-level index, as the property states"],
        J::obj(),
    )
}
