//! C03 — cursor results depend only on content and logical position, not on history.

use std::collections::HashSet;
use std::io::Cursor;
use std::sync::Mutex;

use grenad::ReaderCursor;

use super::files::{for_each_file, Built, Sizes};
use super::hist::{model_step, pos_class, HistGen, Layout};
use super::query::open_cursor;
use crate::cur::{apply, Op};
use crate::gen;
use crate::json::{hex_opt, J};
use crate::model::{Model, Pos};
use crate::prng::{hash_bytes, Rng};
use crate::verdict::Ctx;

/// Source of the cursors under test. `Shared`: clones share one file position, like `&File`
/// (a cursor must then never assume the position it left behind is still there).
#[derive(Clone)]
pub struct Src<'a> {
    data: &'a [u8],
    own: u64,
    shared: Option<std::rc::Rc<std::cell::Cell<u64>>>,
}

impl<'a> Src<'a> {
    pub fn new(data: &'a [u8], shared: bool) -> Src<'a> {
        Src { data, own: 0, shared: if shared { Some(std::rc::Rc::new(std::cell::Cell::new(0))) } else { None } }
    }
    fn pos(&self) -> u64 {
        self.shared.as_ref().map(|c| c.get()).unwrap_or(self.own)
    }
    fn set_pos(&mut self, p: u64) {
        match &self.shared {
            Some(c) => c.set(p),
            None => self.own = p,
        }
    }
}

impl<'a> std::io::Read for Src<'a> {
    fn read(&mut self, buf: &mut [u8]) -> std::io::Result<usize> {
        let start = self.pos().min(self.data.len() as u64) as usize;
        let n = buf.len().min(self.data.len() - start);
        buf[..n].copy_from_slice(&self.data[start..start + n]);
        let p = self.pos();
        self.set_pos(p + n as u64);
        Ok(n)
    }
}

impl<'a> std::io::Seek for Src<'a> {
    fn seek(&mut self, from: std::io::SeekFrom) -> std::io::Result<u64> {
        let (base, off) = match from {
            std::io::SeekFrom::Start(n) => {
                self.set_pos(n);
                return Ok(n);
            }
            std::io::SeekFrom::End(n) => (self.data.len() as u64, n),
            std::io::SeekFrom::Current(n) => (self.pos(), n),
        };
        match base.checked_add_signed(off) {
            Some(n) => {
                self.set_pos(n);
                Ok(n)
            }
            None => Err(std::io::Error::new(std::io::ErrorKind::InvalidInput, "invalid seek to a negative or overflowing position")),
        }
    }
}

type Cur<'a> = ReaderCursor<Src<'a>>;

struct Slot<'a> {
    c: Cur<'a>,
    pos: Pos,
    /// a relative move crossed a deep index block edge since the last absolute move
    crossed_deep: bool,
    name: String,
}

pub struct Exec<'a, 'b> {
    ctx: &'b Ctx,
    b: &'b Built<'b>,
    m: Model<'a>,
    layout: &'b Layout,
    slots: Vec<Slot<'a>>,
    log: Vec<String>,
    pub nontrivial: bool,
    pub failed: bool,
    stream: &'b str,
}

impl<'a, 'b> Exec<'a, 'b> {
    fn new(ctx: &'b Ctx, b: &'b Built<'b>, entries: &'a [crate::cur::Entry], bytes: &'a [u8], layout: &'b Layout, stream: &'b str, shared: bool) -> Option<Exec<'a, 'b>> {
        let c = open_cursor(Src::new(bytes, shared)).ok()?;
        if shared {
            ctx.count("histories_on_a_shared_position_source", 1);
        }
        Some(Exec {
            ctx,
            b,
            m: Model::new(entries),
            layout,
            slots: vec![Slot { c, pos: Pos::Fresh, crossed_deep: false, name: "c0".into() }],
            log: Vec::new(),
            nontrivial: false,
            failed: false,
            stream,
        })
    }

    fn viol(&mut self, sig: &str, what: &str, op: &Op, slot: usize, expected: String, observed: String) {
        self.failed = true;
        let tail: Vec<J> = self.log.iter().rev().take(60).rev().map(|s| J::Str(s.clone())).collect();
        let d = J::obj()
            .set("case", self.b.label.as_str())
            .set("config", self.b.cfg.render())
            .set("n_entries", self.b.entries.len())
            .set("what", what)
            .set("operation", format!("{}.{}", self.slots[slot].name, op.render()))
            .set("expected", expected)
            .set("observed", observed)
            .set("history_tail", J::Arr(tail))
            .set("history_len", self.log.len());
        self.ctx.violation(sig, self.stream, self.b.idx, d);
    }

    fn clone_slot(&mut self, slot: usize) {
        if self.slots.len() >= 3 {
            return;
        }
        let s = &self.slots[slot];
        let name = format!("c{}", self.slots.len());
        self.log.push(format!("{} = {}.clone()", name, s.name));
        let n = Slot { c: s.c.clone(), pos: s.pos, crossed_deep: s.crossed_deep, name };
        self.slots.push(n);
        self.ctx.count("clones", 1);
    }

    /// Applies `op` to cursor `slot`, judges the result against the model.
    fn step(&mut self, slot: usize, op: &Op) {
        let pos = self.slots[slot].pos;
        let (expect, new_pos) = model_step(&self.m, pos, op);
        let pc = pos_class(self.layout, pos);
        self.ctx.tag("op_x_position_classes", &format!("{}@{}", op.kind(), pc));
        let got = apply(&mut self.slots[slot].c, op);
        self.ctx.count("ops_applied", 1);
        let rendered = match &got {
            Ok(g) => hex_opt(g),
            Err(e) => e.clone(),
        };
        self.log.push(format!("{}.{} -> {}", self.slots[slot].name, op.render(), rendered));
        // bookkeeping for the non-triviality rule
        if let (Pos::At(i), Pos::At(j)) = (pos, new_pos) {
            if matches!(op, Op::Next | Op::Prev) && !self.layout.deep_first.is_empty() && self.layout.deep_block_of(i) != self.layout.deep_block_of(j) {
                self.slots[slot].crossed_deep = true;
                self.ctx.count("relative_moves_crossing_deep_index_block", 1);
            }
            if matches!(op, Op::Next | Op::Prev) && self.layout.data_block_of(i) != self.layout.data_block_of(j) {
                self.ctx.count("relative_moves_crossing_data_block", 1);
            }
        }
        if op.is_absolute() {
            if self.slots[slot].crossed_deep {
                self.nontrivial = true;
                self.ctx.count("absolute_moves_after_deep_index_crossing", 1);
            }
            self.slots[slot].crossed_deep = false;
        }
        if matches!(op, Op::Reset | Op::Reopen) {
            self.slots[slot].crossed_deep = false;
            self.ctx.count(if matches!(op, Op::Reset) { "resets" } else { "reopens(into_reader.into_cursor)" }, 1);
        }
        match (expect, got) {
            (Some(exp), Ok(g)) => {
                self.ctx.count("ops_judged", 1);
                let e = self.m.get(exp);
                if g != e {
                    let sig = format!("history-{}-wrong", op.kind());
                    self.viol(&sig, "operation result differs from the one determined by content and logical position", op, slot, format!("{} (model position before: {:?})", hex_opt(&e), pos), hex_opt(&g));
                }
            }
            (Some(exp), Err(e)) => {
                let sig = format!("history-{}-failed", op.kind());
                let ex = self.m.get(exp);
                self.viol(&sig, "operation failed on a valid file with a working source", op, slot, hex_opt(&ex), e);
            }
            (None, r) => {
                self.ctx.count("ops_unspecified_not_judged", 1);
                if r.is_err() {
                    self.ctx.count("unspecified_ops_returning_error_or_panic", 1);
                }
            }
        }
        self.slots[slot].pos = new_pos;
    }
}

/// Random history with clones over the file of `b`.
fn random_history(ctx: &Ctx, b: &Built, layout: &Layout, rng: &mut Rng, len: usize, states: &Mutex<HashSet<u64>>, hashes: &std::collections::HashMap<u64, (usize, usize)>) -> bool {
    random_history_on(ctx, b, &b.bytes, layout, rng, len, states, hashes)
}

/// Random history with clones over `bytes` (same content as `b`, e.g. its V1 encoding).
pub fn random_history_on(ctx: &Ctx, b: &Built, bytes: &[u8], layout: &Layout, rng: &mut Rng, len: usize, states: &Mutex<HashSet<u64>>, hashes: &std::collections::HashMap<u64, (usize, usize)>) -> bool {
    let shared = rng.chance(1, 3);
    let Some(mut ex) = Exec::new(ctx, b, &b.entries, bytes, layout, b.stream, shared) else { return false };
    let mut gens: Vec<HistGen> = vec![HistGen::new(&b.entries, layout)];
    for _ in 0..len {
        if ex.failed {
            break;
        }
        let slot = if ex.slots.len() > 1 && rng.chance(1, 4) { rng.below(ex.slots.len()) } else { ex.slots.len() - 1 };
        if rng.chance(if shared { 3 } else { 1 }, 40) && ex.slots.len() < 3 {
            ex.clone_slot(slot);
            gens.push(HistGen::new(&b.entries, layout));
            continue;
        }
        // novelty steering (coverage only): try a few candidate ops on clones, prefer one that
        // reaches an abstract cursor state not seen before
        let pos = ex.slots[slot].pos;
        let op = if gens[slot].pending.is_empty() && rng.chance(1, 3) {
            let mut chosen = None;
            let mut cands = Vec::new();
            for _ in 0..3 {
                let mut g = HistGen::new(&b.entries, layout);
                let op = g.next_op(rng, pos);
                cands.push((op, g));
            }
            for (i, (op, _)) in cands.iter().enumerate() {
                let mut trial = ex.slots[slot].c.clone();
                let _ = apply(&mut trial, op);
                let st = abstract_state(&trial, hashes);
                if !states.lock().unwrap().contains(&st) {
                    chosen = Some(i);
                    break;
                }
            }
            let (op, g) = cands.swap_remove(chosen.unwrap_or(0));
            gens[slot] = g;
            op
        } else {
            gens[slot].next_op(rng, pos)
        };
        ex.step(slot, &op);
        let st = abstract_state(&ex.slots[slot].c, hashes);
        states.lock().unwrap().insert(st);
    }
    if ex.slots.len() > 1 {
        ctx.count("histories_with_clone_divergence", 1);
    }
    ex.nontrivial
}

/// Abstract cursor state from the H4 fingerprint (coverage accounting only, never an oracle):
/// per level (block ordinal within its depth, recorded offset matches the loaded block?,
/// in-block position class).
fn abstract_state<R>(c: &ReaderCursor<R>, hashes: &std::collections::HashMap<u64, (usize, usize)>) -> u64 {
    let fp = c.verif_fingerprint();
    let mut h = 0x1234u64;
    for (recorded, hash, inblock) in fp {
        let (ord, off) = hashes.get(&hash).copied().unwrap_or((usize::MAX, usize::MAX));
        let matches = recorded == u64::MAX || recorded as usize == off;
        let pc = match inblock {
            None => 0u64,
            Some(0) => 1,
            Some(_) => 2,
        };
        h = crate::prng::mix(&[h, ord.min(6) as u64, matches as u64, pc]);
    }
    h
}

fn block_hashes(b: &Built) -> std::collections::HashMap<u64, (usize, usize)> {
    let mut m = std::collections::HashMap::new();
    if let Some(df) = &b.df {
        let mut ord_by_depth: std::collections::HashMap<usize, usize> = std::collections::HashMap::new();
        for blk in &df.blocks {
            let h = blk.raw.iter().fold(0xcbf29ce484222325u64, |h, x| (h ^ *x as u64).wrapping_mul(0x100000001b3));
            let d = blk.depth.unwrap_or(0);
            let o = ord_by_depth.entry(d).or_insert(0);
            m.insert(h, (*o, blk.offset as usize));
            *o += 1;
        }
    }
    m
}

/// The structured histories: `first, first, next^k (into deep index block j), X` for absolute X,
/// and the mirrored `last, last, prev^k, X`.
fn structured_histories(ctx: &Ctx, b: &Built, layout: &Layout, rng: &mut Rng, max_blocks: usize) -> bool {
    let n = b.entries.len();
    let mut any = false;
    if layout.deep_first.len() < 2 {
        return false;
    }
    let nb = layout.deep_first.len();
    let mut js: Vec<usize> = (1..nb).collect();
    rng.shuffle(&mut js);
    js.truncate(max_blocks);
    for &j in &js {
        for mirrored in [false, true] {
            // number of relative moves needed to land inside deep block j (or its mirror)
            let (k, warm): (usize, Op) = if !mirrored {
                (layout.deep_first[j] + rng.below(2), Op::First)
            } else {
                let jj = nb - 1 - j;
                let end_of_jj = layout.deep_first.get(jj + 1).copied().unwrap_or(n);
                (n - end_of_jj + rng.below(2), Op::Last)
            };
            if k > 600 {
                continue;
            }
            // the absolute operations to try afterwards
            let mut xs: Vec<Op> = vec![Op::First, Op::Last];
            for t in 0..nb {
                let lo = layout.deep_first[t];
                let hi = layout.deep_first.get(t + 1).copied().unwrap_or(n) - 1;
                let key = b.entries[*rng.pick(&[lo, hi])].0.clone();
                xs.push(match rng.below(3) {
                    0 => Op::Ge(key),
                    1 => Op::Le(key),
                    _ => Op::Eq(key),
                });
                if xs.len() > 8 {
                    break;
                }
            }
            for x in xs {
                let Some(mut ex) = Exec::new(ctx, b, &b.entries, &b.bytes, layout, b.stream, false) else { return any };
                ex.step(0, &warm);
                ex.step(0, &warm);
                let rel = if mirrored { Op::Prev } else { Op::Next };
                for _ in 0..k {
                    ex.step(0, &rel);
                    if ex.failed {
                        break;
                    }
                }
                if !ex.failed {
                    ex.step(0, &x);
                    // and once more: absolute moves must be idempotent with respect to history
                    ex.step(0, &x);
                }
                ctx.count("structured_histories", 1);
                any |= ex.nontrivial;
                if ex.failed {
                    return any;
                }
            }
        }
    }
    any
}

pub fn run(ctx: &Ctx) -> i32 {
    let sizes = Sizes { random: (1200, 20_000), deep: (2000, 30_000), level0_only: false, max_levels: 16, budget: 50_000 };
    let hist_per_file = ctx.tier.pick(3, 6);
    let hist_len = ctx.tier.pick(150, 400);
    let states: Mutex<HashSet<u64>> = Mutex::new(HashSet::new());
    for_each_file(ctx, &sizes, |b, rng| {
        let layout = Layout::new(b.df.as_ref(), b.entries.len());
        let hashes = block_hashes(b);
        let mut nontrivial = false;
        if b.multi_deep() {
            nontrivial |= structured_histories(ctx, b, &layout, rng, ctx.tier.pick(2, 6));
        }
        for h in 0..hist_per_file {
            let nt = random_history(ctx, b, &layout, rng, hist_len, &states, &hashes);
            nontrivial |= nt;
            ctx.eval(crate::prng::mix(&[gen::case_hash(&b.cfg, &b.entries), h as u64, hash_bytes(5, b.stream.as_bytes()), b.idx]), nt);
        }
        let _ = nontrivial;
        ctx.sample(|| {
            // a short real history as the sample
            let mut log = Vec::new();
            if let Ok(mut c) = open_cursor(Cursor::new(&b.bytes[..])) {
                let mut g = HistGen::new(&b.entries, &layout);
                let m = Model::new(&b.entries);
                let mut pos = Pos::Fresh;
                let mut r = Rng::new(b.idx);
                for _ in 0..12 {
                    let op = g.next_op(&mut r, pos);
                    let got = apply(&mut c, &op);
                    pos = model_step(&m, pos, &op).1;
                    log.push(J::Str(format!("{} -> {}", op.render(), got.map(|e| hex_opt(&e)).unwrap_or_else(|e| e))));
                }
            }
            J::obj().set("case", b.label.as_str()).set("config", b.cfg.render()).set("n_entries", b.entries.len()).set("history_prefix", J::Arr(log))
        });
    });
    let n_states = states.lock().unwrap().len();
    if ctx.only.is_none() {
        ctx.obligation(">= 500 absolute moves issued after a relative move crossed a deep index block", ctx.counter("absolute_moves_after_deep_index_crossing") >= 500);
        ctx.obligation("clone divergence exercised", ctx.counter("histories_with_clone_divergence") > 0);
        ctx.obligation("reset exercised", ctx.counter("resets") > 0);
        ctx.obligation("structured first,first,next^k,X histories executed", ctx.counter("structured_histories") > 0);
    }
    ctx.finish(
        "exploration",
        "per generated file (biased to files with several blocks at index depth >= 2) up to 3 cursors (original + clones) execute generated operation histories (macro-ops: scans sized to cross data-block and index-block edges known from the independent decoder, seeks to keys in other index blocks/gaps/extremes, first/last (doubled), reset, clone, current), steered by novelty of the abstract cursor state (hook H4, coverage only); every result is compared with the reference model position Fresh|At(i)|Unspecified; plus the structured histories first,first,next^k,X / last,last,prev^k,X for absolute X. evaluations = histories; non-trivial = history in which an absolute move follows a relative move that crossed an index block at depth >= 2; distinct = distinct (file, history number)",
        &[
            "after any operation that returned None the position is Unspecified until the next absolute move or reset: relative moves and current issued there are executed and logged but not judged",
            "current is judged only when the model position is At(i)",
            "states are those reached by generated histories, not all reachable ones",
        ],
        J::obj().set("states", n_states).set("states_note", "distinct abstract cursor states (per level: block ordinal bucket, recorded-offset-matches-loaded-block, in-block position class) observed through hook H4"),
    )
}
