//! C05 — prefix iterators yield exactly the entries sharing the prefix, in order.

use std::io::Cursor;

use super::files::{for_each_file, Sizes};
use super::query::{check_prefix, gen_prefixes, prefix_class, Q};
use crate::gen;
use crate::json::{hex, J};
use crate::model::Model;
use crate::verdict::Ctx;

pub fn run(ctx: &Ctx) -> i32 {
    let sizes = Sizes { random: (4000, 150_000), deep: (500, 20_000), level0_only: false, max_levels: 16, budget: 40_000 };
    let per_file = ctx.tier.pick(40, 200);
    for_each_file(ctx, &sizes, |b, rng| {
        let prefixes = gen_prefixes(rng, &b.entries, per_file);
        let q = Q { ctx, stream: b.stream, idx: b.idx, label: &b.label, cfg: b.cfg.render(), entries: &b.entries, sig: "" };
        let m = Model::new(&b.entries);
        for p in &prefixes {
            ctx.tag("prefix_classes", &prefix_class(&m, p));
            check_prefix(&q, || Cursor::new(&b.bytes[..]), p);
        }
        ctx.eval(gen::case_hash(&b.cfg, &b.entries), b.nontrivial());
        ctx.sample(|| {
            J::obj().set("case", b.label.as_str()).set("config", b.cfg.render()).set("n_entries", b.entries.len()).set("prefixes", J::Arr(prefixes.iter().take(6).map(|p| J::Str(hex(p))).collect()))
        });
    });
    if ctx.only.is_none() {
        let classes = ["empty/", "all-0xFF/", "ends-in-0xFF/", "+is-stored-key", "+longer-than-every-key", "+successor-is-stored-key", "/no-match", "/many-matches"];
        for c in classes {
            let seen = ctx.tags_matching("prefix_classes", c);
            ctx.obligation(&format!("prefix class containing '{}'", c), seen);
        }
    }
    ctx.finish(
        "exploration",
        "per generated file, prefixes of every class (empty, prefixes of stored keys, a stored key itself, key+byte, key+0xFF, longer than every key, 0xFF / 0xFF 0xFF, prefixes whose 0xFF-carry successor is a stored key, random) are given to the forward and reverse prefix iterators, drained up to the first None and compared (completeness and order) with a starts_with filter of the sorted entry list. non-trivial = file with >= 2 data blocks; distinct = distinct (config, entries) hash",
        &["files are produced by the real writer", "nothing is asserted about calls made after an iterator's first None"],
        J::obj(),
    )
}
