use crate::verdict::Ctx;

pub mod c01;
pub mod c02;
pub mod c03;
pub mod c04;
pub mod c05;
pub mod c06;
pub mod c07;
pub mod c08;
pub mod c09;
pub mod c10;
pub mod c11;
pub mod c12;
pub mod c13;
pub mod c14;
pub mod c15;
pub mod c16;
pub mod c17;
pub mod c18;
pub mod files;
pub mod hist;
pub mod query;
pub mod sorter_common;

pub fn run(ctx: &Ctx, part: &str) -> i32 {
    match ctx.id.as_str() {
        "C01" => c01::run(ctx),
        "C02" => c02::run(ctx),
        "C03" => c03::run(ctx),
        "C04" => c04::run(ctx),
        "C05" => c05::run(ctx),
        "C06" => c06::run(ctx),
        "C07" => c07::run(ctx, part),
        "C08" => c08::run(ctx),
        "C09" => c09::run(ctx),
        "C10" => c10::run(ctx),
        "C11" => c11::run(ctx),
        "C12" => c12::run(ctx),
        "C13" => c13::run(ctx),
        "C14" => c14::run(ctx),
        "C15" => c15::run(ctx),
        "C16" => c16::run(ctx),
        "C17" => c17::run(ctx, part),
        "C18" => c18::run(ctx),
        other => {
            println!("INCONCLUSIVE property={} unknown check", other);
            2
        }
    }
}
