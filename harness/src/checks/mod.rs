use crate::verdict::Ctx;

pub mod c01;

pub fn run(ctx: &Ctx, part: &str) -> i32 {
    let _ = part;
    match ctx.id.as_str() {
        "C01" => c01::run(ctx),
        other => {
            println!("INCONCLUSIVE property={} unknown check", other);
            2
        }
    }
}
