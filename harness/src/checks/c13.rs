//! C13 — opening never panics and accepts exactly byte strings ending in a valid trailer.

use std::io::Cursor;
use std::sync::Arc;

use grenad::Reader;

use crate::decoder::{ends_with_valid_trailer, MAGIC_V1, MAGIC_V2};
use crate::gen::{self, Entry, WCfg};
use crate::io_mon::{MonSink, MonSource, Split, SplitState};
use crate::json::{hex, J};
use crate::prng::Rng;
use crate::verdict::{guarded, Ctx};

/// Opens `bytes`; returns Some(violation signature, observed) when the outcome contradicts the
/// predicate.
fn open_check(bytes: &[u8], via_source: bool) -> Option<(&'static str, String)> {
    let expect = ends_with_valid_trailer(bytes);
    let r = if via_source {
        // through the monitored source, under a read schedule picked from the input itself:
        // whole reads, 1-byte reads, random short reads, interruptions
        let data = Arc::new(bytes.to_vec());
        let h = crate::prng::hash_bytes(3, &bytes[bytes.len().saturating_sub(24)..]) ^ bytes.len() as u64;
        let split = match h % 5 {
            0 => Split::Full,
            1 => Split::One,
            2 => Split::Rand,
            3 => Split::IntrEvery(2),
            _ => Split::Chaos,
        };
        guarded(|| Reader::new(MonSource::new("source", data, SplitState::new(split, h), None)).map(|_| ()))
    } else {
        guarded(|| Reader::new(Cursor::new(bytes)).map(|_| ()))
    };
    match r {
        Err(p) => Some(("open-panicked", format!("panic: {}", p))),
        Ok(Ok(())) if !expect => Some(("accepted-without-valid-trailer", "Reader::new returned Ok".into())),
        Ok(Err(e)) if expect => Some(("rejected-valid-trailer", format!("Reader::new returned Err({})", e))),
        _ => None,
    }
}

struct Tally<'a> {
    ctx: &'a Ctx,
    stream: &'a str,
    idx: u64,
    label: String,
    local: std::cell::RefCell<std::collections::BTreeMap<String, (u64, u64)>>,
}

impl<'a> Drop for Tally<'a> {
    fn drop(&mut self) {
        for (class, (opens, accepted)) in self.local.borrow().iter() {
            self.ctx.count("opens", *opens);
            self.ctx.count(&format!("opens:{}", class), *opens);
            self.ctx.count(&format!("accepted:{}", class), *accepted);
        }
    }
}

impl<'a> Tally<'a> {
    fn new(ctx: &'a Ctx, stream: &'a str, idx: u64, label: String) -> Tally<'a> {
        Tally { ctx, stream, idx, label, local: Default::default() }
    }
    fn open(&self, bytes: &[u8], class: &str, via_source: bool) {
        {
            let mut l = self.local.borrow_mut();
            if !l.contains_key(class) {
                l.insert(class.to_string(), (0, 0));
            }
            let e = l.get_mut(class).unwrap();
            e.0 += 1;
            if ends_with_valid_trailer(bytes) {
                e.1 += 1;
            }
        }
        if let Some((sig, obs)) = open_check(bytes, via_source) {
            let tail = &bytes[bytes.len().saturating_sub(30)..];
            self.ctx.violation(
                sig,
                self.stream,
                self.idx,
                J::obj().set("case", self.label.as_str()).set("input_class", class).set("input_len", bytes.len()).set("input_tail_hex", hex(tail)).set("predicate_says_valid", ends_with_valid_trailer(bytes)).set("observed", obs),
            );
        }
    }
}

fn valid_trailer(rng: &mut Rng, v2: bool) -> Vec<u8> {
    let mut t = Vec::new();
    t.extend_from_slice(&rng.next_u64().to_le_bytes());
    t.push(rng.below(6) as u8);
    t.extend_from_slice(&rng.next_u64().to_le_bytes());
    if v2 {
        t.push(rng.byte());
        t.extend_from_slice(&MAGIC_V2.to_le_bytes());
    } else {
        t.extend_from_slice(&MAGIC_V1.to_le_bytes());
    }
    t
}

fn file_case(ctx: &Ctx, stream: &str, idx: u64, cfg: &WCfg, entries: &[Entry], rng: &mut Rng) {
    let t = Tally::new(ctx, stream, idx, format!("file {} n={}", cfg.render(), entries.len()));
    // bytes as a killed writer leaves them: the sink's content after each write call
    let (sink, shared) = MonSink::new("sink", SplitState::full(), None);
    shared.lock().unwrap().keep_cuts = true;
    let built = guarded(|| -> Result<(), String> {
        let mut w = cfg.builder().build(sink);
        for (k, v) in entries {
            w.insert(k, v).map_err(|e| e.to_string())?;
        }
        w.finish().map_err(|e| e.to_string())
    });
    if !matches!(built, Ok(Ok(()))) {
        ctx.count("files_unbuildable_skipped", 1);
        return;
    }
    let g = shared.lock().unwrap();
    let bytes = g.bytes.clone();
    let cuts = g.cuts.clone();
    drop(g);
    ctx.count("files", 1);
    ctx.tag("codecs", gen::codec_name(cfg.codec));
    let mut h = gen::case_hash(cfg, entries);
    h = crate::prng::mix(&[h, bytes.len() as u64]);
    ctx.eval(h, bytes.len() > 22);
    // every truncation length
    for n in 0..=bytes.len() {
        t.open(&bytes[..n], "truncation", n % 16 == 0 || n + 64 > bytes.len());
    }
    // the last truncation lengths also through a real file on disk (std::fs::File seeks)
    if idx % 20 == 0 {
        let path = std::env::temp_dir().join(format!("vh-c13-{}-{}", std::process::id(), idx));
        let lens: Vec<usize> = (bytes.len().saturating_sub(26)..=bytes.len()).chain(0..6).collect();
        for n in lens {
            if std::fs::write(&path, &bytes[..n.min(bytes.len())]).is_err() {
                break;
            }
            let expect = ends_with_valid_trailer(&bytes[..n.min(bytes.len())]);
            let r = guarded(|| std::fs::File::open(&path).map_err(grenad::Error::from).and_then(Reader::new).map(|_| ()));
            ctx.count("opens", 1);
            ctx.count("opens:truncation-on-disk", 1);
            let bad = match &r {
                Err(p) => Some(("open-panicked", format!("panic: {}", p))),
                Ok(Ok(())) if !expect => Some(("accepted-without-valid-trailer", "Reader::new(File) returned Ok".to_string())),
                Ok(Err(e)) if expect => Some(("rejected-valid-trailer", format!("Reader::new(File) returned Err({})", e))),
                _ => None,
            };
            if let Some((sig, obs)) = bad {
                ctx.violation(sig, stream, idx, J::obj().set("case", t.label.as_str()).set("input_class", "truncation on disk").set("input_len", n).set("observed", obs));
            }
        }
        let _ = std::fs::remove_file(&path);
    }
    // crash points: sink content after each write call, and mid-write (partial last write)
    let mut prev = 0;
    for &c in &cuts {
        t.open(&bytes[..c], "crash-after-write-call", false);
        if c > prev + 1 {
            let mid = rng.range(prev + 1, c - 1);
            t.open(&bytes[..mid], "crash-inside-write-call", false);
        }
        prev = c;
    }
    // every single-byte substitution in the last 22 bytes
    let n = bytes.len();
    let mut m = bytes.clone();
    for pos in n.saturating_sub(22)..n {
        let orig = m[pos];
        for b in 0..=255u8 {
            m[pos] = b;
            t.open(&m, "trailer-byte-substitution", b % 4 == 1);
        }
        m[pos] = orig;
    }
    // V1 trailer in place of the V2 one
    if cfg.eff_levels() == 0 {
        let v1 = super::c10::to_v1(&bytes);
        for n in v1.len().saturating_sub(40)..=v1.len() {
            t.open(&v1[..n], "v1-truncation", n % 2 == 0);
        }
        let n1 = v1.len();
        let mut m = v1.clone();
        for pos in n1.saturating_sub(21)..n1 {
            let orig = m[pos];
            for b in [0u8, 1, 5, 6, 7, 0x4c, 0x4d, 0x32, 0x76, 0xc4, 0xd4, 0x23, 0x67, 0xff, orig.wrapping_add(1)] {
                m[pos] = b;
                t.open(&m, "v1-trailer-byte-substitution", b % 2 == 1);
            }
            m[pos] = orig;
        }
    }
    ctx.sample(|| J::obj().set("case", t.label.as_str()).set("file_len", bytes.len()).set("write_calls", cuts.len()).set("trailer_hex", hex(&bytes[bytes.len() - 22..])));
}

pub fn run(ctx: &Ctx) -> i32 {
    // files, including values that embed a byte-exact valid trailer
    let n = ctx.n(6000, 400_000);
    ctx.par("files", n, true, |idx, rng| {
        let (mut entries, mut cfg, _) = gen::gen_file_case(rng, 6000);
        // keep files around <= 12 KiB so that every truncation length is affordable
        let mut total = 0usize;
        let mut keep = 0usize;
        for (k, v) in &entries {
            if total + k.len() + v.len() > 9000 {
                break;
            }
            total += k.len() + v.len();
            keep += 1;
        }
        entries.truncate(keep);
        if idx % 3 == 0 {
            cfg.levels = Some(0);
        }
        if idx % 2 == 0 {
            // embed valid trailers in values (codec None keeps them byte-exact in the file)
            if idx % 4 == 0 {
                cfg.codec = grenad::CompressionType::None;
            }
            for (i, e) in entries.iter_mut().enumerate() {
                if i % 5 == 0 {
                    let pre = rng.range(0, 9);
                    let mut v = rng.bytes(pre);
                    v.extend(valid_trailer(rng, i % 2 == 0));
                    if i % 3 == 0 {
                        v.extend(rng.bytes(3));
                    }
                    e.1 = v;
                }
            }
            ctx.count("files_with_embedded_trailers", 1);
        }
        file_case(ctx, "files", idx, &cfg, &entries, rng);
    });
    // strings made of magic fragments, lengths 0..=30
    let n = ctx.n(60_000, 2_000_000);
    ctx.par("fragments", (n / 1000).max(1), true, |idx, rng| {
        let t = Tally::new(ctx, "fragments", idx, "magic fragments".into());
        let frags: [&[u8]; 10] = [
            &MAGIC_V2.to_le_bytes(),
            &MAGIC_V1.to_le_bytes(),
            &MAGIC_V2.to_be_bytes(),
            &MAGIC_V1.to_be_bytes(),
            &MAGIC_V2.to_le_bytes()[1..],
            &MAGIC_V2.to_le_bytes()[..3],
            &MAGIC_V1.to_le_bytes()[2..],
            &[0u8],
            &[5u8],
            &[6u8],
        ];
        for _ in 0..1000 {
            let mut s: Vec<u8> = Vec::new();
            let target = rng.range(0, 30);
            while s.len() < target {
                if rng.chance(1, 3) {
                    s.push(rng.byte());
                } else {
                    let f: &[u8] = frags[rng.below(frags.len())];
                    s.extend_from_slice(f);
                }
            }
            s.truncate(target.max(if rng.chance(1, 2) { s.len().min(30) } else { target }));
            t.open(&s, "magic-fragments", false);
        }
        ctx.eval(crate::prng::mix(&[idx, 77]), true);
    });
    // random strings with a valid magic and random metadata
    ctx.par("random-metadata", (n / 1000).max(1), true, |idx, rng| {
        let t = Tally::new(ctx, "random-metadata", idx, "valid magic + random metadata".into());
        for _ in 0..1000 {
            let v2 = rng.chance(1, 2);
            let body = rng.range(0, 40);
            let mut s = rng.bytes(body);
            s.extend_from_slice(&if v2 { MAGIC_V2 } else { MAGIC_V1 }.to_le_bytes());
            // make the codec byte interesting when there is one
            let codec_pos = if v2 { s.len().checked_sub(14) } else { s.len().checked_sub(13) };
            if let Some(p) = codec_pos {
                if rng.chance(2, 3) {
                    s[p] = rng.below(9) as u8;
                }
            }
            t.open(&s, "valid-magic-random-metadata", rng.chance(1, 8));
        }
        // a few of them carried by a real file (OS seek semantics: huge offsets, negative seeks)
        let path = std::env::temp_dir().join(format!("vh-c13m-{}-{}", std::process::id(), idx));
        for j in 0..12 {
            let v2 = j % 2 == 0;
            let mut s = rng.bytes(rng.clone().range(0, 30));
            let mut meta = Vec::new();
            // index offset with high bits set, count anything, a known or unknown codec
            meta.extend_from_slice(&(rng.next_u64() | if j % 3 == 0 { 1 << 63 } else { 0 }).to_le_bytes());
            meta.push(rng.below(8) as u8);
            meta.extend_from_slice(&rng.next_u64().to_le_bytes());
            if v2 {
                meta.push(rng.byte());
            }
            s.extend(meta);
            s.extend_from_slice(&if v2 { MAGIC_V2 } else { MAGIC_V1 }.to_le_bytes());
            if std::fs::write(&path, &s).is_err() {
                break;
            }
            let expect = ends_with_valid_trailer(&s);
            let r = guarded(|| std::fs::File::open(&path).map_err(grenad::Error::from).and_then(Reader::new).map(|_| ()));
            ctx.count("opens", 1);
            ctx.count("opens:random-metadata-on-disk", 1);
            let bad = match &r {
                Err(p) => Some(("open-panicked", format!("panic: {}", p))),
                Ok(Ok(())) if !expect => Some(("accepted-without-valid-trailer", "Reader::new(File) returned Ok".to_string())),
                Ok(Err(e)) if expect => Some(("rejected-valid-trailer", format!("Reader::new(File) returned Err({})", e))),
                _ => None,
            };
            if let Some((sig, obs)) = bad {
                ctx.violation(sig, "random-metadata", idx, J::obj().set("input_class", "valid magic + random metadata, on disk").set("input_len", s.len()).set("input_tail_hex", hex(&s[s.len().saturating_sub(30)..])).set("observed", obs));
            }
        }
        let _ = std::fs::remove_file(&path);
        ctx.eval(crate::prng::mix(&[idx, 78]), true);
    });
    // exhaustive: all strings of length 0..=2 and all single trailing bytes after a valid prefix
    ctx.par("tiny-exhaustive", 1, false, |idx, _| {
        let t = Tally::new(ctx, "tiny-exhaustive", idx, "all strings of length <= 2".into());
        t.open(&[], "tiny", false);
        for a in 0..=255u8 {
            t.open(&[a], "tiny", false);
            for b in 0..=255u8 {
                t.open(&[a, b], "tiny", false);
            }
        }
        ctx.eval(79, true);
    });
    if ctx.only.is_none() {
        for c in gen::codecs() {
            ctx.obligation(&format!("files of codec {}", gen::codec_name(c)), ctx.has_tag("codecs", gen::codec_name(c)));
        }
        ctx.obligation("truncations that are themselves accepted (embedded trailer)", ctx.counter("accepted:truncation") > ctx.counter("files"));
        ctx.obligation("trailer substitutions both accepted and rejected", ctx.counter("accepted:trailer-byte-substitution") > 0 && ctx.counter("accepted:trailer-byte-substitution") < ctx.counter("opens:trailer-byte-substitution"));
        ctx.obligation("V1 trailers", ctx.counter("accepted:v1-truncation") > 0);
        ctx.obligation("crash points enumerated", ctx.counter("opens:crash-after-write-call") > 0);
    }
    ctx.finish(
        "fault_enumeration",
        "Reader::new is called on: every truncation length 0..=len of finished files of every codec and index depth (including files whose values embed byte-exact valid V1/V2 trailers, so that some truncations must be accepted), the sink content after every write call of the writer and inside write calls (crash points), every single-byte substitution (256 values) at each of the last 22 positions, the same with a V1 trailer, all strings of length <= 2, strings of length 0..=30 made of magic fragments, and strings with a valid magic and random metadata; through io::Cursor and through the monitored source. The outcome must not be a panic and is_ok() must equal the harness's own predicate ends_with_valid_trailer (len >= 22, V2 magic, codec byte <= 5; or len >= 21, V1 magic, codec byte <= 5). evaluations = files + batches of 1000 strings; non-trivial = file longer than its trailer / a string batch; distinct = distinct file hash or batch number",
        &["the predicate is the harness's reading of 'ends with a complete trailer': magic, full metadata record of that version, known codec id; nothing else in the metadata is validated at open time", "crash points: a crashed writer leaves a prefix of the byte stream (the sink content after or inside a write call)"],
        J::obj().set("exhaustive", false).set("exhaustive_parts", "every truncation length of every generated file; every byte value at each of the last 22 positions; all strings of length <= 2"),
    )
}
