//! C01 — write/read round trip is exact, ordered and complete for every configuration.

use std::io::Cursor;

use grenad::{FileVersion, Reader};

use crate::cur::{first_diff, scan_backward, scan_forward};
use crate::decoder;
use crate::gen::{self, Entry, WCfg};
use crate::json::J;
use crate::prng::Rng;
use crate::verdict::{guarded, Ctx};

/// Checks one case. Returns the decoded layout class when the file could be decoded.
pub fn check_case(ctx: &Ctx, stream: &str, idx: u64, label: &str, cfg: &WCfg, entries: &[Entry], use_finish: bool) {
    let detail = |what: &str, more: String| {
        J::obj()
            .set("case", label)
            .set("config", cfg.render())
            .set("n_entries", entries.len())
            .set("entries", gen::render_entries(entries, 6))
            .set("what", what)
            .set("observed", more)
    };
    // a few files are written straight to a real file on disk (File and BufWriter<File>)
    let hcase = gen::case_hash(cfg, entries);
    let to_disk = hcase % 40 == 7 && entries.iter().map(|(k, v)| k.len() + v.len()).sum::<usize>() < 2_000_000;
    let bytes = if to_disk {
        let path = std::env::temp_dir().join(format!("vh-c01w-{}-{:x}", std::process::id(), hcase));
        let r = guarded(|| -> Result<Vec<u8>, String> {
            let f = std::fs::File::create(&path).map_err(|e| e.to_string())?;
            if hcase % 80 == 7 {
                let mut w = cfg.builder().build(f);
                for (k, v) in entries {
                    w.insert(k, v).map_err(|e| format!("insert io error: {}", e))?;
                }
                w.finish().map_err(|e| format!("finish io error: {}", e))?;
            } else {
                let mut w = cfg.builder().build(std::io::BufWriter::new(f));
                for (k, v) in entries {
                    w.insert(k, v).map_err(|e| format!("insert io error: {}", e))?;
                }
                // into_inner flushes the writer's sink (the BufWriter) before handing it back
                let bw = w.into_inner().map_err(|e| format!("into_inner io error: {}", e))?;
                drop(bw);
            }
            std::fs::read(&path).map_err(|e| e.to_string())
        });
        let _ = std::fs::remove_file(&path);
        ctx.count("files_written_to_disk", 1);
        match r {
            Ok(x) => x,
            Err(p) => Err(format!("panic: {}", p)),
        }
    } else if use_finish {
        // finish() on a writer over a shared buffer sink
        let r = guarded(|| -> Result<Vec<u8>, String> {
            // half of these sinks accept writes only partially or interrupt them (C11 compares the
            // byte streams; here the file must still round-trip)
            let h = gen::case_hash(cfg, entries);
            let split = match h % 4 {
                0 => crate::io_mon::Split::Rand,
                1 => crate::io_mon::Split::Chaos,
                _ => crate::io_mon::Split::Full,
            };
            let (sink, shared) = crate::io_mon::MonSink::new("sink", crate::io_mon::SplitState::new(split, h), None);
            let mut w = cfg.builder().build(sink);
            for (k, v) in entries {
                w.insert(k, v).map_err(|e| format!("insert io error: {}", e))?;
            }
            // a third of these sinks commit on flush only (like a buffered file): finish() drops
            // the sink, so what it wrote must have been flushed to be part of the file
            if h % 3 == 0 {
                shared.lock().unwrap().commit_on_flush = true;
            }
            w.finish().map_err(|e| format!("finish io error: {}", e))?;
            let g = shared.lock().unwrap();
            Ok(g.durable().to_vec())
        });
        match r {
            Ok(x) => x,
            Err(p) => Err(format!("panic: {}", p)),
        }
    } else {
        gen::build_file(cfg, entries)
    };
    let bytes = match bytes {
        Ok(b) => b,
        Err(e) => {
            let sig = if e.starts_with("panic") { "write-panic" } else { "write-error" };
            ctx.violation(sig, stream, idx, detail("writing a strictly ascending sequence failed", e));
            ctx.eval(gen::case_hash(cfg, entries), false);
            return;
        }
    };
    ctx.count("bytes_written", bytes.len() as u64);
    // layout (independent decoder) for coverage accounting only
    let mut nontrivial = entries.iter().any(|(k, v)| k.len() + v.len() > cfg.eff_block_size());
    if let Ok(df) = decoder::decode(&bytes, None) {
        ctx.tag("layouts", &df.layout_class());
        if df.data_blocks.len() >= 2 {
            nontrivial = true;
        }
        if df.max_deep_index_blocks() >= 2 {
            ctx.count("files_with_multi_block_deep_index", 1);
        }
        ctx.max("max_data_blocks", df.data_blocks.len() as u64);
    }
    ctx.tag("codecs_written_and_read", gen::codec_name(cfg.codec));
    ctx.tag("depth_classes", &match cfg.eff_levels() {
        0 => "0".to_string(),
        1 => "1".to_string(),
        2 => "2".to_string(),
        255 => "255".to_string(),
        _ => "3+".to_string(),
    });
    if entries.is_empty() {
        ctx.count("empty_files", 1);
    }
    if entries.iter().any(|(k, _)| k.is_empty()) {
        ctx.count("files_with_empty_key", 1);
    }
    if entries.iter().any(|(_, v)| v.is_empty()) {
        ctx.count("files_with_empty_value", 1);
    }
    ctx.eval(gen::case_hash(cfg, entries), nontrivial);
    ctx.count("entries_round_tripped", entries.len() as u64);

    let open = guarded(|| Reader::new(Cursor::new(&bytes[..])));
    let reader = match open {
        Ok(Ok(r)) => r,
        Ok(Err(e)) => {
            ctx.violation("open-failed", stream, idx, detail("finished file does not open", format!("{}", e)));
            return;
        }
        Err(p) => {
            ctx.violation("open-panic", stream, idx, detail("opening a finished file panicked", p));
            return;
        }
    };
    if reader.len() != entries.len() as u64 {
        ctx.violation("wrong-count", stream, idx, detail("len() differs from the number of inserts", format!("len()={}", reader.len())));
    }
    if reader.is_empty() != entries.is_empty() {
        ctx.violation("wrong-count", stream, idx, detail("is_empty() inconsistent", format!("is_empty()={}", reader.is_empty())));
    }
    if reader.compression_type() != cfg.codec {
        ctx.violation("wrong-codec", stream, idx, detail("compression_type() differs from the configured codec", format!("{:?}", reader.compression_type())));
    }
    if reader.file_version() != FileVersion::FormatV2 {
        ctx.violation("wrong-version", stream, idx, detail("file_version() is not V2", format!("{:?}", reader.file_version())));
    }
    let limit = entries.len() + 2;
    match guarded(|| reader.into_cursor()) {
        Ok(Ok(mut c)) => match scan_forward(&mut c, limit) {
            Ok(got) => {
                if let Some(d) = first_diff(entries, &got) {
                    ctx.violation("forward-scan-differs", stream, idx, detail("forward scan differs from the inserted list", d));
                }
            }
            Err(e) => ctx.violation("forward-scan-failed", stream, idx, detail("forward scan failed", e)),
        },
        Ok(Err(e)) => ctx.violation("cursor-failed", stream, idx, detail("into_cursor failed", format!("{}", e))),
        Err(p) => ctx.violation("cursor-failed", stream, idx, detail("into_cursor panicked", p)),
    }
    // backward scan on a fresh cursor
    match guarded(|| Reader::new(Cursor::new(&bytes[..])).and_then(|r| r.into_cursor())) {
        Ok(Ok(mut c)) => match scan_backward(&mut c, limit) {
            Ok(mut got) => {
                got.reverse();
                if let Some(d) = first_diff(entries, &got) {
                    ctx.violation("backward-scan-differs", stream, idx, detail("backward scan (reversed) differs from the inserted list", d));
                }
            }
            Err(e) => ctx.violation("backward-scan-failed", stream, idx, detail("backward scan failed", e)),
        },
        Ok(Err(e)) => ctx.violation("open-failed", stream, idx, detail("second open failed", format!("{}", e))),
        Err(p) => ctx.violation("open-panic", stream, idx, detail("second open panicked", p)),
    }
    // a share of the files is also read back from a real file (std::fs::File and BufReader<File>)
    let h = gen::case_hash(cfg, entries);
    if h % 25 == 0 {
        let path = std::env::temp_dir().join(format!("vh-c01-{}-{:x}", std::process::id(), h));
        if std::fs::write(&path, &bytes).is_ok() {
            let r = guarded(|| -> Result<Vec<Entry>, String> {
                let f = std::fs::File::open(&path).map_err(|e| e.to_string())?;
                if h % 50 == 0 {
                    let mut c = Reader::new(std::io::BufReader::new(f)).and_then(|r| r.into_cursor()).map_err(|e| format!("error: {}", e))?;
                    scan_forward(&mut c, limit)
                } else {
                    let mut c = Reader::new(f).and_then(|r| r.into_cursor()).map_err(|e| format!("error: {}", e))?;
                    let mut got = scan_backward(&mut c, limit)?;
                    got.reverse();
                    Ok(got)
                }
            });
            let _ = std::fs::remove_file(&path);
            ctx.count("files_read_back_from_disk", 1);
            match r {
                Ok(Ok(got)) => {
                    if let Some(d) = first_diff(entries, &got) {
                        ctx.violation("scan-from-disk-differs", stream, idx, detail("scan of the file read from disk differs from the inserted list", d));
                    }
                }
                Ok(Err(e)) => ctx.violation("scan-from-disk-failed", stream, idx, detail("reading the file from disk failed", e)),
                Err(p) => ctx.violation("scan-from-disk-failed", stream, idx, detail("reading the file from disk panicked", p)),
            }
        }
    }
    ctx.sample(|| J::obj().set("case", label).set("config", cfg.render()).set("n_entries", entries.len()).set("file_bytes", bytes.len()).set("entries", gen::render_entries(entries, 3)));
}

pub fn run(ctx: &Ctx) -> i32 {
    let structured = gen::structured_cases(ctx.tier == crate::verdict::Tier::Thorough);
    ctx.par("structured", structured.len(), false, |idx, _rng| {
        let c = &structured[idx as usize];
        check_case(ctx, "structured", idx, &c.label, &c.cfg, &c.entries, idx % 5 == 0);
    });
    let n = ctx.n(8000, 300_000);
    ctx.par("random", n, true, |idx, rng: &mut Rng| {
        let budget = if rng.chance(1, 25) { 1 << 20 } else { 60_000 };
        let (entries, cfg, shape) = gen::gen_file_case(rng, budget);
        check_case(ctx, "random", idx, &format!("random/{:?}", shape), &cfg, &entries, rng.chance(1, 6));
    });
    // deep-index files (several blocks at index depth >= 2)
    let n = ctx.n(1500, 40_000);
    ctx.par("deep", n, true, |idx, rng: &mut Rng| {
        let levels = *rng.pick(&[2u8, 2, 3, 3, 4, 7, 255]);
        let cnt = rng.range(20, 160);
        let (entries, cfg) = gen::gen_deep_case(rng, levels, cnt);
        check_case(ctx, "deep", idx, "deep", &cfg, &entries, false);
    });
    if ctx.tier == crate::verdict::Tier::Thorough && ctx.only.is_none() {
        // a few large files (10^6 entries)
        ctx.par("large", 6, true, |idx, rng: &mut Rng| {
            let n = 1_000_000;
            let vlen = rng.range(0, 40);
            let entries: Vec<Entry> = (0..n as u32).map(|i| (i.to_be_bytes().to_vec(), vec![(i % 251) as u8; vlen])).collect();
            let mut cfg = gen::gen_cfg(rng, true);
            cfg.levels = Some(rng.range(0, 3) as u8);
            check_case(ctx, "large", idx, "large-1e6", &cfg, &entries, false);
        });
    }
    if ctx.only.is_none() {
        for c in gen::codecs() {
            ctx.obligation(&format!("codec {} written and read", gen::codec_name(c)), ctx.has_tag("codecs_written_and_read", gen::codec_name(c)));
        }
        for d in ["0", "1", "2", "3+", "255"] {
            ctx.obligation(&format!("index depth class {}", d), ctx.has_tag("depth_classes", d));
        }
        ctx.obligation("a file with >= 2 blocks at an index depth >= 2", ctx.counter("files_with_multi_block_deep_index") > 0);
        ctx.obligation("empty file", ctx.counter("empty_files") > 0);
        ctx.obligation("empty key", ctx.counter("files_with_empty_key") > 0);
        ctx.obligation("empty value", ctx.counter("files_with_empty_value") > 0);
    }
    ctx.finish(
        "exploration",
        "cases = (writer configuration, strictly ascending entry list) from a seed-independent structured list (all codecs x index levels x block sizes x intervals, empty/single/empty-key/huge entries, level sweeps) plus seeded random cases over 5 key shapes x 5 value shapes; each case is written with the real Writer and read back through Reader (len, codec, version, forward scan, backward scan on a fresh cursor) and compared entry by entry with the inserted list. non-trivial = file has >= 2 data blocks or an entry larger than the block size; distinct = distinct hash of (config, entries)",
        &[
            "compression levels are drawn from each codec's documented range (zlib 0..=9, zstd 0..=22)",
            "file sizes bounded by time/RAM (<= ~50 MiB), not by the 2^32 framing limit",
            "the independent decoder is used for coverage classification only in this check",
        ],
        J::obj(),
    )
}
