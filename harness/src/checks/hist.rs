//! Cursor operation histories: generator (macro-ops steered by the file layout) and the
//! model-based executor used by C03 (and reused by C16/C17).

use std::collections::VecDeque;

use crate::cur::{Entry, Op};
use crate::decoder::DFile;
use crate::model::{Model, Pos};
use crate::prng::Rng;

/// Layout facts the generator steers by (all from the independent decoder).
pub struct Layout {
    pub n: usize,
    /// global index of the first entry of each data block
    pub data_first: Vec<usize>,
    /// global index of the first entry under each block of the deepest index level that has
    /// several blocks (index depth >= 2); empty when there is none
    pub deep_first: Vec<usize>,
}

impl Layout {
    pub fn new(df: Option<&DFile>, n: usize) -> Layout {
        let mut data_first = vec![0];
        let mut deep_first = Vec::new();
        if let Some(d) = df {
            data_first = d.data_block_first_entry();
            for depth in (2..d.index_levels.len()).rev() {
                if d.index_levels[depth].len() >= 2 {
                    deep_first = d.first_entry_under_index_blocks(depth);
                    break;
                }
            }
        }
        if data_first.is_empty() {
            data_first.push(0);
        }
        Layout { n, data_first, deep_first }
    }
    pub fn deep_block_of(&self, i: usize) -> usize {
        match self.deep_first.binary_search(&i) {
            Ok(b) => b,
            Err(b) => b.saturating_sub(1),
        }
    }
    pub fn data_block_of(&self, i: usize) -> usize {
        match self.data_first.binary_search(&i) {
            Ok(b) => b,
            Err(b) => b.saturating_sub(1),
        }
    }
    fn next_edge(edges: &[usize], i: usize) -> Option<usize> {
        let p = edges.partition_point(|&e| e <= i);
        edges.get(p).copied()
    }
    fn prev_edge(edges: &[usize], i: usize) -> Option<usize> {
        // largest edge start <= i (the first entry of i's block)
        let p = edges.partition_point(|&e| e <= i);
        p.checked_sub(1).map(|p| edges[p])
    }
}

pub struct HistGen<'a> {
    pub entries: &'a [Entry],
    pub layout: &'a Layout,
    pub pending: VecDeque<Op>,
}

impl<'a> HistGen<'a> {
    pub fn new(entries: &'a [Entry], layout: &'a Layout) -> HistGen<'a> {
        HistGen { entries, layout, pending: VecDeque::new() }
    }

    fn probe(&self, rng: &mut Rng) -> Vec<u8> {
        let n = self.entries.len();
        if n == 0 {
            return rng.bytes(2);
        }
        let pick_idx = |rng: &mut Rng| -> usize {
            if !self.layout.deep_first.is_empty() && rng.chance(1, 2) {
                // a key in a randomly chosen deep index block (first/last/inside)
                let b = rng.below(self.layout.deep_first.len());
                let lo = self.layout.deep_first[b];
                let hi = self.layout.deep_first.get(b + 1).copied().unwrap_or(n) - 1;
                let mid = rng.range(lo, hi);
                *rng.pick(&[lo, hi, mid])
            } else if rng.chance(1, 3) {
                let b = rng.below(self.layout.data_first.len());
                let lo = self.layout.data_first[b];
                let hi = self.layout.data_first.get(b + 1).copied().unwrap_or(n).max(lo + 1) - 1;
                *rng.pick(&[lo, hi.min(n - 1)])
            } else {
                rng.below(n)
            }
        };
        let i = pick_idx(rng);
        let k = &self.entries[i].0;
        match rng.below(10) {
            0..=4 => k.clone(),
            5 => {
                let mut s = k.clone();
                s.push(0);
                s
            }
            6 => {
                if k.is_empty() {
                    vec![]
                } else {
                    k[..k.len() - 1].to_vec()
                }
            }
            7 => {
                let mut s = self.entries[n - 1].0.clone();
                s.push(0xff);
                s
            }
            8 => vec![],
            _ => {
                let mut s = k.clone();
                if let Some(l) = s.last_mut() {
                    *l = l.wrapping_sub(1);
                }
                s
            }
        }
    }

    fn scan_len(&self, rng: &mut Rng, pos: Pos, forward: bool) -> usize {
        let i = match pos {
            Pos::At(i) => i,
            Pos::Fresh => {
                if forward {
                    0
                } else {
                    self.layout.n.saturating_sub(1)
                }
            }
            Pos::Unspecified => return rng.range(1, 3),
        };
        let l = self.layout;
        let to_edge = |edges: &[usize]| -> Option<usize> {
            if forward {
                Layout::next_edge(edges, i).map(|e| e - i)
            } else {
                Layout::prev_edge(edges, i).map(|e| i - e + 1)
            }
        };
        let choice = rng.below(10);
        let k = match choice {
            0..=2 => Some(rng.range(1, 3)),
            3..=5 => to_edge(&l.data_first).map(|d| (d + rng.below(3)).saturating_sub(rng.below(2)).max(1)),
            6..=8 => to_edge(&l.deep_first).map(|d| (d + rng.below(3)).saturating_sub(rng.below(2)).max(1)),
            _ => Some(if forward { l.n - i.min(l.n) + 2 } else { i + 3 }),
        };
        k.unwrap_or_else(|| rng.range(1, 4)).min(300)
    }

    /// Next operation for a cursor whose model position is `pos`.
    pub fn next_op(&mut self, rng: &mut Rng, pos: Pos) -> Op {
        if let Some(op) = self.pending.pop_front() {
            return op;
        }
        match rng.below(20) {
            0..=4 => {
                let k = self.scan_len(rng, pos, true);
                for _ in 0..k {
                    self.pending.push_back(Op::Next);
                }
            }
            5..=8 => {
                let k = self.scan_len(rng, pos, false);
                for _ in 0..k {
                    self.pending.push_back(Op::Prev);
                }
            }
            9 | 10 => self.pending.push_back(Op::Ge(self.probe(rng))),
            11 | 12 => self.pending.push_back(Op::Le(self.probe(rng))),
            13 => self.pending.push_back(Op::Eq(self.probe(rng))),
            14 | 15 => {
                self.pending.push_back(Op::First);
                if rng.chance(1, 2) {
                    self.pending.push_back(Op::First);
                }
            }
            16 | 17 => {
                self.pending.push_back(Op::Last);
                if rng.chance(1, 2) {
                    self.pending.push_back(Op::Last);
                }
            }
            18 => self.pending.push_back(if rng.chance(1, 3) { Op::Reopen } else { Op::Reset }),
            _ => self.pending.push_back(Op::Current),
        }
        self.pending.pop_front().unwrap()
    }
}

/// What the model says an operation must return from `pos`, and the position afterwards.
/// `None` expectation = not judged (unspecified).
pub fn model_step(m: &Model, pos: Pos, op: &Op) -> (Option<Option<usize>>, Pos) {
    let n = m.len();
    let after = |r: Option<usize>| match r {
        Some(i) => Pos::At(i),
        None => Pos::Unspecified,
    };
    match op {
        Op::First => {
            let r = if n > 0 { Some(0) } else { None };
            (Some(r), after(r))
        }
        Op::Last => {
            let r = n.checked_sub(1);
            (Some(r), after(r))
        }
        Op::Ge(q) => {
            let r = m.ge(q);
            (Some(r), after(r))
        }
        Op::Le(q) => {
            let r = m.le(q);
            (Some(r), after(r))
        }
        Op::Eq(q) => {
            let r = m.eq(q);
            (Some(r), after(r))
        }
        Op::Next => match pos {
            Pos::Fresh => {
                let r = if n > 0 { Some(0) } else { None };
                (Some(r), after(r))
            }
            Pos::At(i) => {
                let r = if i + 1 < n { Some(i + 1) } else { None };
                (Some(r), after(r))
            }
            Pos::Unspecified => (None, Pos::Unspecified),
        },
        Op::Prev => match pos {
            Pos::Fresh => {
                let r = n.checked_sub(1);
                (Some(r), after(r))
            }
            Pos::At(i) => {
                let r = i.checked_sub(1);
                (Some(r), after(r))
            }
            Pos::Unspecified => (None, Pos::Unspecified),
        },
        Op::Reset | Op::Reopen => (None, Pos::Fresh),
        Op::Current => match pos {
            Pos::At(i) => (Some(Some(i)), pos),
            _ => (None, pos),
        },
    }
}

pub fn pos_class(l: &Layout, pos: Pos) -> &'static str {
    match pos {
        Pos::Fresh => "fresh",
        Pos::Unspecified => "unspecified",
        Pos::At(i) => {
            if i == 0 {
                "at-first"
            } else if i + 1 == l.n {
                "at-last"
            } else if l.deep_first.binary_search(&i).is_ok() || l.deep_first.binary_search(&(i + 1)).is_ok() {
                "at-index-block-edge"
            } else if l.data_first.binary_search(&i).is_ok() || l.data_first.binary_search(&(i + 1)).is_ok() {
                "at-data-block-edge"
            } else {
                "at-middle"
            }
        }
    }
}
