//! Sorter scenarios shared by C07, C08, C11, C12 and C17: configuration, the three output
//! routes, and failure classification.

use std::collections::BTreeMap;
use std::io::{self, Cursor};
use std::num::NonZeroUsize;

use grenad::{ChunkCreator, CompressionType, Error, MergerBuilder, Reader, SortAlgorithm, Sorter, SorterBuilder};

use crate::cur::Entry;
use crate::gen::{self, WCfg};
use crate::merge_mon::{MergeErr, MergeKind, MonMerge};
use crate::prng::Rng;
use crate::verdict::guarded;

#[derive(Clone, Debug)]
pub struct SCfg {
    /// requested dump threshold
    pub budget: usize,
    /// `true`: set through hook H2 (no 10 MiB clamp); `false`: through the public API
    pub raw: bool,
    /// initial buffer capacity override (hook H2); `None` = library default
    pub initial: Option<usize>,
    pub allow_realloc: bool,
    pub max_nb_chunks: usize,
    pub stable: bool,
    pub parallel: bool,
    pub codec: Option<CompressionType>,
    pub level: Option<u32>,
    pub block_size: Option<usize>,
    pub interval: Option<usize>,
    pub levels: Option<u8>,
    /// seed of the order in which the builder setters are called (0 = declaration order)
    pub order: u64,
}

impl SCfg {
    pub fn render(&self) -> String {
        format!(
            "budget={}{} initial={:?} allow_realloc={} max_nb_chunks={} sort={}{} chunk(codec={:?} level={:?} block_size={:?} interval={:?} index_levels={:?}) setter_order_seed={}",
            self.budget,
            if self.raw { "(raw,H2)" } else { "(public API, clamped to >= 10MiB)" },
            self.initial,
            self.allow_realloc,
            self.max_nb_chunks,
            if self.stable { "stable" } else { "unstable" },
            if self.parallel { "+parallel" } else { "" },
            self.codec.map(gen::codec_name),
            self.level,
            self.block_size,
            self.interval,
            self.levels,
            self.order
        )
    }
    /// The effective memory budget T of C08.
    pub fn effective_budget(&self) -> usize {
        if self.raw {
            self.budget
        } else {
            self.budget.max(10 * 1024 * 1024)
        }
    }
    pub fn chunk_cfg(&self) -> WCfg {
        WCfg { codec: self.codec.unwrap_or(CompressionType::None), level: self.level.unwrap_or(0), block_size: self.block_size, interval: self.interval, levels: self.levels }
    }
    pub fn build<CC: ChunkCreator>(&self, mf: MonMerge, cc: CC) -> Sorter<MonMerge, CC> {
        // The setters are independent: they are called in an order drawn from `order` (and the
        // chunk creator is attached first or last), so that order-dependent builders show.
        let mut steps: Vec<u8> = (0..10).collect();
        if self.order != 0 {
            Rng::new(self.order).shuffle(&mut steps);
        }
        let creator_first = self.order % 2 == 0;
        fn apply<MF, CC2>(this: &SCfg, b: &mut SorterBuilder<MF, CC2>, steps: &[u8]) {
            for st in steps {
                match st {
                    0 => {
                        if this.raw {
                            b.verif_raw_limits(this.budget, this.initial);
                        } else {
                            b.dump_threshold(this.budget);
                        }
                    }
                    1 => {
                        b.allow_realloc(this.allow_realloc);
                    }
                    2 => {
                        b.max_nb_chunks(this.max_nb_chunks);
                    }
                    3 => {
                        b.sort_algorithm(if this.stable { SortAlgorithm::Stable } else { SortAlgorithm::Unstable });
                    }
                    4 => {
                        b.sort_in_parallel(this.parallel);
                    }
                    5 => {
                        if let Some(c) = this.codec {
                            b.chunk_compression_type(c);
                        }
                    }
                    6 => {
                        if let Some(l) = this.level {
                            b.chunk_compression_level(l);
                        }
                    }
                    7 => {
                        if let Some(bs) = this.block_size {
                            b.block_size(bs);
                        }
                    }
                    8 => {
                        if let Some(i) = this.interval {
                            b.index_key_interval(NonZeroUsize::new(i).unwrap());
                        }
                    }
                    _ => {
                        if let Some(l) = this.levels {
                            b.index_levels(l);
                        }
                    }
                }
            }
        }
        if creator_first {
            let mut b = SorterBuilder::new(mf).chunk_creator(cc);
            apply(self, &mut b, &steps);
            b.build()
        } else {
            let mut b = SorterBuilder::new(mf);
            apply(self, &mut b, &steps);
            b.chunk_creator(cc).build()
        }
    }
}

/// Random small-scale configuration (hook H2 budgets).
pub fn gen_scfg(rng: &mut Rng) -> SCfg {
    let budget = *rng.pick(&[256usize, 512, 1000, 1024, 2048, 4096, 10_000, 65_536, 262_144]);
    let allow_realloc = rng.chance(2, 3);
    let initial = if allow_realloc {
        Some(match rng.below(5) {
            0 => 16,
            1 => 48,
            2 => rng.range(16, budget),
            3 => budget,
            _ => (budget / 8).max(16),
        })
    } else if rng.chance(1, 3) {
        Some(budget)
    } else {
        None
    };
    let w = gen::gen_cfg(rng, true);
    SCfg {
        budget,
        raw: true,
        initial,
        allow_realloc,
        max_nb_chunks: if rng.chance(1, 25) { *rng.pick(&[usize::MAX, usize::MAX / 2, usize::MAX - 1]) } else { *rng.pick(&[0usize, 1, 2, 2, 3, 4, 6, 25]) },
        stable: rng.chance(2, 3),
        parallel: rng.chance(1, 4),
        codec: if rng.chance(1, 3) { None } else { Some(w.codec) },
        level: if rng.chance(1, 2) { None } else { Some(w.level) },
        block_size: w.block_size,
        interval: w.interval,
        levels: w.levels.map(|l| l.min(3)),
        order: rng.next_u64(),
    }
}

#[derive(Clone, Copy, Debug, PartialEq, Eq)]
pub enum Route {
    Stream,
    Write,
    Cursors,
}

impl Route {
    pub fn name(self) -> &'static str {
        match self {
            Route::Stream => "into_stream_merger_iter",
            Route::Write => "write_into_stream_writer",
            Route::Cursors => "into_reader_cursors+Merger",
        }
    }
    pub const ALL: [Route; 3] = [Route::Stream, Route::Write, Route::Cursors];
}

#[derive(Debug)]
pub enum FailKind {
    Io(io::Error),
    Merge(MergeErr),
    Other(String),
    Panic(String),
}

#[derive(Debug)]
pub struct Failure {
    /// the public call in progress
    pub stage: String,
    pub kind: FailKind,
}

impl Failure {
    pub fn render(&self) -> String {
        match &self.kind {
            FailKind::Io(e) => format!("{}: Err(Io({:?}: {}))", self.stage, e.kind(), e),
            FailKind::Merge(e) => format!("{}: Err(Merge({}))", self.stage, e),
            FailKind::Other(e) => format!("{}: Err({})", self.stage, e),
            FailKind::Panic(p) => format!("{}: PANIC {}", self.stage, p),
        }
    }
}

pub fn classify(stage: &str, e: Error<MergeErr>) -> Failure {
    let kind = match e {
        Error::Io(io) => FailKind::Io(io),
        Error::Merge(m) => FailKind::Merge(m),
        other => FailKind::Other(format!("{:?}", other)),
    };
    Failure { stage: stage.to_string(), kind }
}

pub fn classify_plain(stage: &str, e: Error) -> Failure {
    let kind = match e {
        Error::Io(io) => FailKind::Io(io),
        other => FailKind::Other(format!("{:?}", other)),
    };
    Failure { stage: stage.to_string(), kind }
}

/// Runs `f` as the public call `stage`: a panic becomes a `Failure`.
pub fn call<T>(stage: &str, f: impl FnOnce() -> Result<T, Failure>) -> Result<T, Failure> {
    crate::io_mon::set_stage(stage);
    match guarded(f) {
        Ok(r) => r,
        Err(p) => Err(Failure { stage: stage.to_string(), kind: FailKind::Panic(p) }),
    }
}

/// Feeds `inserts` to a sorter and drains it by `route`. `on_insert(sorter, i)` runs after each
/// successful insert (monitors hang there). `sink` wraps the output writer's sink for
/// `Route::Write`.
pub fn run_sorter<CC, W, FI>(scfg: &SCfg, mf: MonMerge, cc: CC, inserts: &[Entry], route: Route, out_cfg: &WCfg, sink: W, mut on_insert: FI) -> Result<Vec<Entry>, Failure>
where
    CC: ChunkCreator,
    W: io::Write,
    FI: FnMut(&Sorter<MonMerge, CC>, usize),
{
    let mf2 = mf.clone();
    let mut sorter = call("SorterBuilder::build", || Ok(scfg.build(mf, cc)))?;
    for (i, (k, v)) in inserts.iter().enumerate() {
        call("Sorter::insert", || sorter.insert(k, v).map_err(|e| classify("Sorter::insert", e)))?;
        on_insert(&sorter, i);
    }
    let limit = inserts.len() + 2;
    match route {
        Route::Stream => {
            let mut it = call("Sorter::into_stream_merger_iter", || sorter.into_stream_merger_iter().map_err(|e| classify("Sorter::into_stream_merger_iter", e)))?;
            let mut out = Vec::new();
            loop {
                let e = call("MergerIter::next", || it.next().map(|o| o.map(|(k, v)| (k.to_vec(), v.to_vec()))).map_err(|e| classify("MergerIter::next", e)))?;
                match e {
                    Some(e) => out.push(e),
                    None => return Ok(out),
                }
                if out.len() > limit {
                    return Err(Failure { stage: "MergerIter::next".into(), kind: FailKind::Other("yields more entries than were inserted".into()) });
                }
            }
        }
        Route::Write => {
            let mut w = out_cfg.builder().build(sink);
            call("Sorter::write_into_stream_writer", || sorter.write_into_stream_writer(&mut w).map_err(|e| classify("Sorter::write_into_stream_writer", e)))?;
            // the caller reads the sink back; signal with an empty list
            call("Writer::finish", || w.finish().map_err(|e| Failure { stage: "Writer::finish".into(), kind: FailKind::Io(e) }))?;
            Ok(Vec::new())
        }
        Route::Cursors => {
            let cursors = call("Sorter::into_reader_cursors", || sorter.into_reader_cursors().map_err(|e| classify("Sorter::into_reader_cursors", e)))?;
            let mut b = MergerBuilder::new(mf2);
            for c in cursors {
                b.push(c);
            }
            let mut it = call("Merger::into_stream_merger_iter", || b.build().into_stream_merger_iter().map_err(|e| classify_plain("Merger::into_stream_merger_iter", e)))?;
            let mut out = Vec::new();
            loop {
                let e = call("MergerIter::next", || it.next().map(|o| o.map(|(k, v)| (k.to_vec(), v.to_vec()))).map_err(|e| classify("MergerIter::next", e)))?;
                match e {
                    Some(e) => out.push(e),
                    None => return Ok(out),
                }
                if out.len() > limit {
                    return Err(Failure { stage: "MergerIter::next".into(), kind: FailKind::Other("yields more entries than were inserted".into()) });
                }
            }
        }
    }
}

/// Reads back a finished file (for `Route::Write`).
pub fn read_back(bytes: &[u8], limit: usize) -> Result<Vec<Entry>, String> {
    guarded(|| -> Result<Vec<Entry>, String> {
        let r = Reader::new(Cursor::new(bytes)).map_err(|e| format!("open: {}", e))?;
        let mut c = r.into_cursor().map_err(|e| format!("cursor: {}", e))?;
        let mut out = Vec::new();
        while let Some((k, v)) = c.move_on_next().map_err(|e| format!("next: {}", e))? {
            out.push((k.to_vec(), v.to_vec()));
            if out.len() > limit {
                return Err("too many entries".into());
            }
        }
        Ok(out)
    })
    .map_err(|p| format!("panic: {}", p))?
}

// ------------------------------------------------------------------ insert sequences and the model

/// Self-delimiting value token carrying the insert sequence number:
/// `[total_len u16 LE][seq u32 LE][padding]`.
pub fn token(seq: u32, pad: usize) -> Vec<u8> {
    let total = 6 + pad;
    let mut v = Vec::with_capacity(total);
    v.extend_from_slice(&(total as u16).to_le_bytes());
    v.extend_from_slice(&seq.to_le_bytes());
    for i in 0..pad {
        v.push((seq as usize * 31 + i) as u8);
    }
    v
}

/// Parses a concatenation of tokens back into their sequence numbers (None if malformed).
pub fn parse_tokens(mut v: &[u8]) -> Option<Vec<u32>> {
    let mut out = Vec::new();
    while !v.is_empty() {
        if v.len() < 6 {
            return None;
        }
        let total = u16::from_le_bytes([v[0], v[1]]) as usize;
        if total < 6 || total > v.len() {
            return None;
        }
        let seq = u32::from_le_bytes([v[2], v[3], v[4], v[5]]);
        let expect = token(seq, total - 6);
        if expect != v[..total] {
            return None;
        }
        out.push(seq);
        v = &v[total..];
    }
    Some(out)
}

pub struct InsertPlan {
    pub inserts: Vec<Entry>,
    pub model: BTreeMap<Vec<u8>, Vec<Vec<u8>>>,
}

/// Insert sequence over a key universe of `universe` keys; values are tokens (`tokens = true`)
/// or arbitrary bytes including empty ones.
pub fn gen_inserts(rng: &mut Rng, n: usize, universe: usize, max_val: usize, tokens: bool, big_every: Option<(usize, usize)>) -> InsertPlan {
    gen_inserts_capped(rng, n, universe, max_val, tokens, big_every, usize::MAX)
}

/// Same, stopping once `max_total` bytes of keys and values have been generated.
pub fn gen_inserts_capped(rng: &mut Rng, n: usize, universe: usize, max_val: usize, tokens: bool, big_every: Option<(usize, usize)>, max_total: usize) -> InsertPlan {
    let key_style = rng.below(4);
    let tiny = crate::gen::gen_keys(rng, crate::gen::KeyShape::K1, universe.max(2) * 2);
    let keys: Vec<Vec<u8>> = (0..universe)
        .map(|i| match key_style {
            0 => (i as u32).to_be_bytes().to_vec(),
            1 => {
                let mut k = vec![b'k'; rng.range(0, 3)];
                k.extend_from_slice(&(i as u16).to_be_bytes());
                let extra = rng.range(0, 12);
                k.extend(rng.bytes(extra));
                k
            }
            2 => tiny[i % tiny.len()].clone(),
            _ => {
                if i == 0 {
                    vec![]
                } else {
                    let plen = rng.range(1, 6);
                    let mut k = rng.bytes(plen);
                    k.extend_from_slice(&(i as u16).to_be_bytes());
                    k
                }
            }
        })
        .collect();
    let mut inserts = Vec::with_capacity(n);
    let mut model: BTreeMap<Vec<u8>, Vec<Vec<u8>>> = BTreeMap::new();
    let mut total = 0usize;
    for seq in 0..n {
        if total > max_total {
            break;
        }
        let k = keys[rng.below(universe)].clone();
        let mut vlen = match rng.below(8) {
            0 => 0,
            1..=5 => rng.range(0, max_val.min(24)),
            _ => rng.range(0, max_val),
        };
        if let Some((every, size)) = big_every {
            if seq % every == every - 1 {
                vlen = size;
            }
        }
        let v = if tokens { token(seq as u32, vlen.min(60_000)) } else { rng.bytes(vlen) };
        total += k.len() + v.len();
        model.entry(k.clone()).or_default().push(v.clone());
        inserts.push((k, v));
    }
    InsertPlan { inserts, model }
}
