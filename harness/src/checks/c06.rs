//! C06 — k-way merge yields the ordered key union, values merged once in source order.

use std::collections::BTreeMap;
use std::io::Cursor;

use grenad::{MergerBuilder, Reader};

use super::sorter_common::read_back;
use crate::cur::Entry;
use crate::decoder;
use crate::gen::{self, WCfg};
use crate::json::{hex, J};
use crate::merge_mon::{MergeCall, MergeKind, MonMerge};
use crate::prng::Rng;
use crate::verdict::{guarded, Ctx};

pub struct MergeCase {
    /// all sources are one and the same file read through handles sharing one position
    pub shared_position: bool,
    pub sources: Vec<(WCfg, Vec<Entry>)>,
    pub kind: MergeKind,
    pub pattern: &'static str,
    pub path: usize,
}

pub fn gen_case(rng: &mut Rng) -> MergeCase {
    let k = match rng.below(12) {
        0 => 0,
        1 => 1,
        2 | 3 => 2,
        4 | 5 => 3,
        _ => rng.range(2, 10),
    };
    let universe = *rng.pick(&[1usize, 3, 8, 30, 200, 600]);
    let long_keys = rng.chance(1, 4);
    let keys: Vec<Vec<u8>> = match rng.below(4) {
        // tiny alphabet: dense prefix relations, keys differing only by trailing 0x00 / 0xFF bytes
        0 => gen::gen_keys(rng, gen::KeyShape::K1, universe),
        // random binary, variable length
        1 => gen::gen_keys(rng, gen::KeyShape::K4, universe),
        _ => {
            let mut v: Vec<Vec<u8>> = (0..universe)
                .map(|i| {
                    let mut key = if i == 0 && rng.chance(1, 3) { vec![] } else { (i as u32).to_be_bytes().to_vec() };
                    if long_keys && !key.is_empty() {
                        key.extend(vec![b'x'; 150]);
                    }
                    key
                })
                .collect();
            v.sort();
            v.dedup();
            v
        }
    };
    let keys = if keys.is_empty() { vec![vec![1u8]] } else { keys };
    let pattern = *rng.pick(&["identical", "disjoint", "nested", "interleaved", "random", "random", "some-empty", "all-empty"]);
    let mut sources = Vec::new();
    for si in 0..k {
        let mut cfg = gen::gen_cfg(rng, true);
        cfg.block_size = Some(*rng.pick(&[0usize, 1024, 1024, 2000, 8192]));
        cfg.levels = Some(*rng.pick(&[0u8, 0, 1, 2, 3]));
        let chosen: Vec<usize> = match pattern {
            "identical" => (0..keys.len()).collect(),
            "disjoint" => (0..keys.len()).filter(|i| i % k == si).collect(),
            "nested" => (0..keys.len()).filter(|i| i % (si + 1) == 0).collect(),
            "interleaved" => (0..keys.len()).filter(|i| (i / 2) % k == si || i % 7 == 0).collect(),
            "some-empty" => {
                if si % 2 == 0 {
                    vec![]
                } else {
                    (0..keys.len()).filter(|_| rng.chance(1, 2)).collect()
                }
            }
            "all-empty" => vec![],
            _ => {
                let p = rng.range(1, 9) as u32;
                (0..keys.len()).filter(|_| rng.chance(p, 10)).collect()
            }
        };
        let entries: Vec<Entry> = chosen
            .into_iter()
            .map(|ki| {
                // unique token: identifies (source, key) in any output byte string
                let mut v = format!("<s{}k{}>", si, ki).into_bytes();
                let pad = match rng.below(6) {
                    0 => rng.range(0, 300),
                    _ => rng.range(0, 6),
                };
                v.extend(std::iter::repeat(b'.').take(pad));
                (keys[ki].clone(), v)
            })
            .collect();
        sources.push((cfg, entries));
    }
    let kind = *rng.pick(&[MergeKind::Inject, MergeKind::Inject, MergeKind::Concat, MergeKind::First, MergeKind::Last]);
    // self-merge: the same file k times, through handles that share one file position (like
    // several readers over one &File)
    let shared_position = pattern == "identical" && k >= 2 && rng.chance(1, 2);
    if shared_position {
        let first = sources[0].clone();
        for s in sources.iter_mut() {
            *s = first.clone();
        }
    }
    MergeCase { shared_position, sources, kind, pattern, path: rng.below(4000) }
}

/// The offline checker over the merge-call log.
pub fn check_outputs(kind: MergeKind, model: &BTreeMap<Vec<u8>, Vec<Vec<u8>>>, output: &[Entry], log: &[MergeCall]) -> Result<(), (String, String)> {
    // keys: strictly ascending, exactly the union
    for w in output.windows(2) {
        if w[0].0 >= w[1].0 {
            return Err(("output-keys-not-ascending".into(), format!("key {} is followed by {}", hex(&w[0].0), hex(&w[1].0))));
        }
    }
    let out_keys: Vec<&Vec<u8>> = output.iter().map(|(k, _)| k).collect();
    let model_keys: Vec<&Vec<u8>> = model.keys().collect();
    if out_keys != model_keys {
        let missing = model_keys.iter().find(|k| !out_keys.contains(k)).map(|k| hex(k));
        let extra = out_keys.iter().find(|k| !model_keys.contains(k)).map(|k| hex(k));
        return Err(("output-keys-not-the-union".into(), format!("{} keys expected, {} yielded; first missing {:?}, first extra {:?}", model_keys.len(), out_keys.len(), missing, extra)));
    }
    let mut calls: BTreeMap<&[u8], Vec<&MergeCall>> = BTreeMap::new();
    for c in log {
        calls.entry(&c.key).or_default().push(c);
    }
    for k in calls.keys() {
        if !model.contains_key(*k) {
            return Err(("merge-called-with-unknown-key".into(), hex(k)));
        }
    }
    for (key, out_v) in output {
        let vals = &model[key];
        let cs = calls.get(key.as_slice()).map(|v| v.as_slice()).unwrap_or(&[]);
        if vals.len() >= 2 {
            if cs.len() != 1 {
                return Err(("merge-not-applied-exactly-once".into(), format!("key {} is held by {} sources, merge function called {} times", hex(key), vals.len(), cs.len())));
            }
            if &cs[0].values != vals {
                return Err((
                    "merge-arguments-wrong".into(),
                    format!("key {}: merge called with {:?}, expected values in source order {:?}", hex(key), cs[0].values.iter().map(|v| hex(v)).collect::<Vec<_>>(), vals.iter().map(|v| hex(v)).collect::<Vec<_>>()),
                ));
            }
            if &cs[0].result != out_v || &kind.apply(key, vals) != out_v {
                return Err(("merged-value-wrong".into(), format!("key {}: output {} but the merge call returned {}", hex(key), hex(out_v), hex(&cs[0].result))));
            }
        } else {
            // lone key: calling merge with the single value or skipping the call are both right
            // (the number of calls is not constrained; a call must be about that value)
            if let Some(bad) = cs.iter().find(|c| &c.values != vals) {
                return Err(("merge-arguments-wrong".into(), format!("lone key {}: merge called with {:?}", hex(key), bad.values.iter().map(|v| hex(v)).collect::<Vec<_>>())));
            }
            let ok = if kind.lone_preserving() { out_v == &vals[0] } else { out_v == &vals[0] || out_v == &kind.apply(key, vals) };
            if !ok {
                return Err(("lone-value-altered".into(), format!("key {} held by one source with value {}, output {}", hex(key), hex(&vals[0]), hex(out_v))));
            }
        }
    }
    Ok(())
}

fn build_model(sources: &[(WCfg, Vec<Entry>)]) -> BTreeMap<Vec<u8>, Vec<Vec<u8>>> {
    let mut m: BTreeMap<Vec<u8>, Vec<Vec<u8>>> = BTreeMap::new();
    for (_, es) in sources {
        for (k, v) in es {
            m.entry(k.clone()).or_default().push(v.clone());
        }
    }
    m
}

fn check_case(ctx: &Ctx, stream: &str, idx: u64, case: &MergeCase, rng: &mut Rng) {
    let mut files = Vec::new();
    for (cfg, es) in &case.sources {
        match gen::build_file(cfg, es) {
            Ok(b) => files.push(b),
            Err(_) => {
                ctx.count("cases_skipped_source_unbuildable", 1);
                return;
            }
        }
    }
    let model = build_model(&case.sources);
    let detail = |what: &str, obs: String| {
        J::obj()
            .set("pattern", case.pattern)
            .set("merge_function", case.kind.name())
            .set("n_sources", case.sources.len())
            .set("sources", J::Arr(case.sources.iter().map(|(c, e)| J::obj().set("config", c.render()).set("n", e.len()).set("entries", gen::render_entries(e, 4))).collect()))
            .set("what", what)
            .set("observed", obs)
    };
    // coverage accounting
    let max_tie = model.values().map(|v| v.len()).max().unwrap_or(0);
    ctx.max("max_sources_tied_on_one_key", max_tie as u64);
    if max_tie >= 3 {
        ctx.count("cases_with_ties_among_3+_sources", 1);
    }
    ctx.tag("patterns", case.pattern);
    ctx.tag("source_counts", &if case.sources.len() > 256 { ">256".to_string() } else { case.sources.len().min(8).to_string() });
    ctx.tag("merge_functions", case.kind.name());
    ctx.tag("builder_paths", ["add", "push", "extend", "mixed add/push/extend"][case.path % 4]);
    // ties at a source's block edge
    for (bytes, (_, es)) in files.iter().zip(&case.sources) {
        if let Ok(df) = decoder::decode(bytes, None) {
            for &f in df.data_block_first_entry().iter().skip(1) {
                if model[&es[f].0].len() >= 2 || model[&es[f - 1].0].len() >= 2 {
                    ctx.count("ties_at_a_source_block_edge", 1);
                }
            }
        }
    }
    let mf = MonMerge::new(case.kind);
    let log = mf.log.clone();
    if case.shared_position {
        ctx.count("self_merges_over_a_shared_position_source", 1);
    }
    let make_merger = |mf: MonMerge| -> Result<grenad::Merger<super::c03::Src<'_>, MonMerge>, String> {
        let mut cursors = Vec::new();
        let first: &[u8] = files.first().map(|b| &b[..]).unwrap_or(&[]);
        let shared = super::c03::Src::new(first, true);
        for b in &files {
            let src = if case.shared_position { shared.clone() } else { super::c03::Src::new(&b[..], false) };
            cursors.push(Reader::new(src).and_then(|r| r.into_cursor()).map_err(|e| format!("open source: {}", e))?);
        }
        let mut b = if case.path % 2 == 0 { MergerBuilder::new(mf) } else { grenad::Merger::builder(mf) };
        match case.path % 4 {
            0 => {
                for c in cursors {
                    b = b.add(c);
                }
            }
            1 => {
                for c in cursors {
                    b.push(c);
                }
            }
            2 => b.extend(cursors),
            _ => {
                // mixed: sources registered through add, push and several extend calls, in
                // groups whose sizes are drawn from the case's path seed
                let mut r = Rng::new(case.path as u64);
                let mut it = cursors.into_iter().peekable();
                while it.peek().is_some() {
                    match r.below(3) {
                        0 => {
                            let c = it.next().unwrap();
                            b = b.add(c);
                        }
                        1 => {
                            let c = it.next().unwrap();
                            b.push(c);
                        }
                        _ => {
                            let n = r.range(1, 3);
                            let group: Vec<_> = it.by_ref().take(n).collect();
                            b.extend(group);
                        }
                    }
                }
            }
        }
        Ok(b.build())
    };
    let limit = model.len() + 2;
    let streamed = guarded(|| -> Result<Vec<Entry>, String> {
        let m = make_merger(mf.clone())?;
        let mut it = m.into_stream_merger_iter().map_err(|e| format!("into_stream_merger_iter: {}", e))?;
        let mut out = Vec::new();
        while let Some((k, v)) = it.next().map_err(|e| format!("next: {}", e))? {
            out.push((k.to_vec(), v.to_vec()));
            if out.len() > limit {
                return Err("merger yields more keys than the union holds".into());
            }
        }
        Ok(out)
    });
    let nontrivial = max_tie >= 2 && case.sources.len() >= 2;
    let mut h = crate::prng::hash_bytes(3, case.kind.name().as_bytes());
    for (c, e) in &case.sources {
        h = crate::prng::mix(&[h, gen::case_hash(c, e)]);
    }
    ctx.eval(h, nontrivial);
    let output = match streamed {
        Ok(Ok(o)) => o,
        Ok(Err(e)) => {
            ctx.violation("merge-failed", stream, idx, detail("merging valid sources failed", e));
            return;
        }
        Err(p) => {
            ctx.violation("merge-panicked", stream, idx, detail("merging valid sources panicked", p));
            return;
        }
    };
    let calls = log.lock().unwrap().clone();
    ctx.count("merge_calls_logged", calls.len() as u64);
    ctx.count("keys_merged", output.len() as u64);
    if calls.iter().any(|c| c.borrowed) {
        ctx.count("cases_with_borrowed_results", 1);
    }
    if calls.iter().any(|c| !c.borrowed) {
        ctx.count("cases_with_owned_results", 1);
    }
    if let Err((sig, obs)) = check_outputs(case.kind, &model, &output, &calls) {
        ctx.violation(&sig, stream, idx, detail("merger output / merge-call log violates the k-way merge law", obs));
        return;
    }
    // write_into_stream_writer produces a file with exactly that content
    let out_cfg = gen::gen_cfg(rng, true);
    let mf2 = MonMerge::new(case.kind);
    let written = guarded(|| -> Result<Vec<u8>, String> {
        let m = make_merger(mf2.clone())?;
        let mut w = out_cfg.builder().memory();
        m.write_into_stream_writer(&mut w).map_err(|e| format!("write_into_stream_writer: {}", e))?;
        w.into_inner().map_err(|e| e.to_string())
    });
    match written {
        Ok(Ok(bytes)) => match read_back(&bytes, limit) {
            Ok(got) => {
                if let Some(d) = crate::cur::first_diff(&output, &got) {
                    ctx.violation("written-file-differs", stream, idx, detail("file produced by write_into_stream_writer differs from the streamed content", d));
                }
                if let Err((sig, obs)) = check_outputs(case.kind, &model, &got, &mf2.log.lock().unwrap()) {
                    ctx.violation(&format!("written-{}", sig), stream, idx, detail("write_into_stream_writer violates the k-way merge law", obs));
                }
            }
            Err(e) => ctx.violation("written-file-unreadable", stream, idx, detail("file produced by write_into_stream_writer cannot be read", e)),
        },
        Ok(Err(e)) => ctx.violation("write-failed", stream, idx, detail("write_into_stream_writer failed", e)),
        Err(p) => ctx.violation("write-panicked", stream, idx, detail("write_into_stream_writer panicked", p)),
    }
    ctx.sample(|| {
        J::obj()
            .set("pattern", case.pattern)
            .set("merge_function", case.kind.name())
            .set("sources", J::Arr(case.sources.iter().map(|(c, e)| J::obj().set("config", c.render()).set("entries", gen::render_entries(e, 3))).collect()))
            .set("merge_calls", J::Arr(calls.iter().take(3).map(|c| J::Str(format!("merge({}, {:?}) -> {}", hex(&c.key), c.values.iter().map(|v| String::from_utf8_lossy(v).chars().take(12).collect::<String>()).collect::<Vec<_>>(), hex(&c.result)))).collect()))
    });
}

pub fn run(ctx: &Ctx) -> i32 {
    let n = ctx.n(40_000, 3_000_000);
    ctx.par("random", n, true, |idx, rng| {
        let case = gen_case(rng);
        check_case(ctx, "random", idx, &case, rng);
    });
    // many sources (257..300): source positions beyond one byte
    let n = ctx.n(6, 60);
    ctx.par("many-sources", n, true, |idx, rng| {
        let k = rng.range(257, 300);
        let universe = rng.range(2, 12);
        let mut sources = Vec::new();
        for si in 0..k {
            let entries: Vec<Entry> = (0..universe as u32).filter(|_| rng.chance(2, 3)).map(|ki| (ki.to_be_bytes().to_vec(), format!("<s{}k{}>", si, ki).into_bytes())).collect();
            sources.push((WCfg::plain(), entries));
        }
        let case = MergeCase { shared_position: false, sources, kind: *rng.pick(&[MergeKind::Inject, MergeKind::Concat, MergeKind::First, MergeKind::Last]), pattern: "many-sources", path: rng.below(4000) };
        check_case(ctx, "many-sources", idx, &case, rng);
    });
    if ctx.only.is_none() {
        ctx.obligation("more than 256 sources", ctx.has_tag("patterns", "many-sources"));
        ctx.obligation("ties among >= 3 sources", ctx.counter("cases_with_ties_among_3+_sources") > 0);
        ctx.obligation("ties at a source's block edge", ctx.counter("ties_at_a_source_block_edge") > 0);
        ctx.obligation("k = 0", ctx.has_tag("source_counts", "0"));
        ctx.obligation("all sources empty", ctx.has_tag("patterns", "all-empty"));
        ctx.obligation("borrowed and owned merge results", ctx.counter("cases_with_borrowed_results") > 0 && ctx.counter("cases_with_owned_results") > 0);
    }
    ctx.finish(
        "exploration",
        "k in 0..=8 sorted sources over a small key universe (identical, disjoint, nested, interleaved, random, some/all empty), each written with its own writer configuration so block edges differ; values are unique tokens <s{source}k{key}> so every output byte identifies its source; merge functions inject (injective encoding of key and argument list), concat, first, last (borrowed results); builder paths add/push/extend. The offline checker over the logged merge calls requires: output keys strictly ascending and equal to the union; for a key in >= 2 sources exactly one call whose arguments are the sources' values in source order and whose result is the output; lone keys yield the source value (number of calls not constrained); write_into_stream_writer yields a file with the same content. non-trivial = case with a key held by >= 2 sources; distinct = distinct hash of (merge function, sources)",
        &["sources are files produced by the real writer", "the merge function is deterministic"],
        J::obj(),
    )
}
