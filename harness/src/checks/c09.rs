//! C09 — files conform to the V2 format and interoperate with grenad 0.4.7 both ways.

use std::io::Cursor;
use std::num::NonZeroUsize;

use grenad::CompressionType;

use super::query::{check_seeks, open_cursor, Q};
use crate::cur::{first_diff, scan_forward, Entry};
use crate::decoder;
use crate::gen::{self, WCfg};
use crate::json::{hex, hex_opt, J};
use crate::model::Model;
use crate::prng::Rng;
use crate::verdict::{guarded, Ctx, Tier};

/// The codec ids of the format (the harness's own table).
pub fn codec_id(c: CompressionType) -> u8 {
    match c {
        CompressionType::None => 0,
        CompressionType::SnappyPre05 => 1,
        CompressionType::Zlib => 2,
        CompressionType::Lz4 => 3,
        CompressionType::Zstd => 4,
        CompressionType::Snappy => 5,
    }
}

fn old_codec(c: CompressionType) -> grenad_0_4::CompressionType {
    match c {
        CompressionType::None => grenad_0_4::CompressionType::None,
        CompressionType::SnappyPre05 => grenad_0_4::CompressionType::SnappyPre05,
        CompressionType::Zlib => grenad_0_4::CompressionType::Zlib,
        CompressionType::Lz4 => grenad_0_4::CompressionType::Lz4,
        CompressionType::Zstd => grenad_0_4::CompressionType::Zstd,
        CompressionType::Snappy => grenad_0_4::CompressionType::Snappy,
    }
}

/// Writes with the frozen 0.4.7 writer.
pub fn build_old(cfg: &WCfg, entries: &[Entry]) -> Result<Vec<u8>, String> {
    guarded(|| -> Result<Vec<u8>, String> {
        let mut b = grenad_0_4::Writer::builder();
        b.compression_type(old_codec(cfg.codec));
        b.compression_level(cfg.level);
        if let Some(bs) = cfg.block_size {
            b.block_size(bs);
        }
        if let Some(i) = cfg.interval {
            b.index_key_interval(NonZeroUsize::new(i).unwrap());
        }
        if let Some(l) = cfg.levels {
            b.index_levels(l);
        }
        let mut w = b.memory();
        for (k, v) in entries {
            w.insert(k, v).map_err(|e| e.to_string())?;
        }
        w.into_inner().map_err(|e| e.to_string())
    })
    .map_err(|p| format!("0.4.7 writer panicked: {}", p))?
}

/// Reads with the frozen 0.4.7 reader: full forward scan plus GE seeks on fresh cursors.
fn read_old(bytes: &[u8], probes: &[Vec<u8>], limit: usize) -> Result<(Vec<Entry>, Vec<Option<Entry>>), String> {
    guarded(|| -> Result<(Vec<Entry>, Vec<Option<Entry>>), String> {
        let r = grenad_0_4::Reader::new(Cursor::new(bytes)).map_err(|e| format!("0.4.7 open: {}", e))?;
        let mut c = r.into_cursor().map_err(|e| format!("0.4.7 cursor: {}", e))?;
        let mut out = Vec::new();
        while let Some((k, v)) = c.move_on_next().map_err(|e| format!("0.4.7 next: {}", e))? {
            out.push((k.to_vec(), v.to_vec()));
            if out.len() > limit {
                return Err("0.4.7 scan yields too many entries".into());
            }
        }
        let mut seeks = Vec::new();
        for p in probes {
            let r = grenad_0_4::Reader::new(Cursor::new(bytes)).map_err(|e| format!("0.4.7 open: {}", e))?;
            let mut c = r.into_cursor().map_err(|e| format!("0.4.7 cursor: {}", e))?;
            let g = c.move_on_key_greater_than_or_equal_to(p).map_err(|e| format!("0.4.7 GE: {}", e))?;
            seeks.push(g.map(|(k, v)| (k.to_vec(), v.to_vec())));
        }
        Ok((out, seeks))
    })
    .map_err(|p| format!("0.4.7 reader panicked: {}", p))?
}

fn check_case(ctx: &Ctx, stream: &str, idx: u64, label: &str, cfg: &WCfg, entries: &[Entry], rng: &mut Rng) {
    let detail = |what: &str, obs: String| J::obj().set("case", label).set("config", cfg.render()).set("n_entries", entries.len()).set("entries", gen::render_entries(entries, 6)).set("what", what).set("observed", obs);
    // one file in eight is written through a sink that accepts writes only partially
    let h = gen::case_hash(cfg, entries);
    let built = if h % 8 == 0 {
        ctx.count("files_written_through_a_partial_write_sink", 1);
        guarded(|| -> Result<Vec<u8>, String> {
            let (sink, shared) = crate::io_mon::MonSink::new("sink", crate::io_mon::SplitState::new(crate::io_mon::Split::Rand, h), None);
            let mut w = cfg.builder().build(sink);
            for (k, v) in entries {
                w.insert(k, v).map_err(|e| e.to_string())?;
            }
            w.finish().map_err(|e| e.to_string())?;
            let g = shared.lock().unwrap();
            Ok(g.bytes.clone())
        })
        .map_err(|p| format!("panic: {}", p))
        .and_then(|r| r)
    } else {
        gen::build_file(cfg, entries)
    };
    let Ok(bytes) = built else {
        ctx.count("files_unbuildable_skipped", 1);
        return;
    };
    let m = Model::new(entries);
    let keys: Vec<&[u8]> = entries.iter().map(|(k, _)| k.as_slice()).collect();
    let probes = gen::probes(rng, &keys, 6);
    ctx.tag("codecs_current_writer", gen::codec_name(cfg.codec));
    // (a) independent decoder on the current writer's file
    let mut nontrivial = false;
    match decoder::decode(&bytes, Some(cfg.eff_interval())) {
        Ok(df) => {
            nontrivial = df.data_blocks.len() >= 2;
            ctx.tag("layouts", &df.layout_class());
            if df.max_deep_index_blocks() >= 2 {
                ctx.count("files_with_multi_block_deep_index", 1);
            }
            ctx.count("blocks_decoded", df.blocks.len() as u64);
            let t = &df.trailer;
            if t.version != 2 {
                ctx.violation("not-v2", stream, idx, detail("finished file does not carry the V2 magic", format!("version {}", t.version)));
            }
            if t.codec != codec_id(cfg.codec) {
                ctx.violation("trailer-codec-id", stream, idx, detail("codec id in the trailer is not the format's id of the configured codec", format!("id {} expected {}", t.codec, codec_id(cfg.codec))));
            }
            if t.levels as usize != cfg.eff_levels() {
                ctx.violation("trailer-levels", stream, idx, detail("index levels in the trailer differ from the configuration", format!("{} expected {}", t.levels, cfg.eff_levels())));
            }
            if t.count != entries.len() as u64 {
                ctx.violation("trailer-count", stream, idx, detail("entry count in the trailer differs from the number of inserts", format!("{} expected {}", t.count, entries.len())));
            }
            if let Some(d) = first_diff(entries, &df.entries()) {
                ctx.violation("decoder-content-differs", stream, idx, detail("independent decoder recovers different entries", d));
            }
        }
        Err(e) => {
            ctx.violation("malformed-file", stream, idx, detail("independent decoder rejects the finished file", e));
        }
    }
    ctx.eval(gen::case_hash(cfg, entries), nontrivial);
    // (b) frozen 0.4.7 reader on the current writer's file
    match read_old(&bytes, &probes, entries.len() + 2) {
        Ok((scan, seeks)) => {
            ctx.count("current_to_0.4.7_reads", 1);
            if let Some(d) = first_diff(entries, &scan) {
                ctx.violation("old-reader-differs", stream, idx, detail("grenad 0.4.7 reader recovers different entries from a current file", d));
            }
            for (p, g) in probes.iter().zip(seeks) {
                let e = m.get(m.ge(p));
                if g != e {
                    ctx.violation("old-reader-seek-differs", stream, idx, detail("grenad 0.4.7 GE seek on a current file differs", format!("GE({}) expected {} got {}", hex(p), hex_opt(&e), hex_opt(&g))));
                }
            }
        }
        Err(e) => ctx.violation("old-reader-failed", stream, idx, detail("grenad 0.4.7 reader fails on a current file", e)),
    }
    // (c) 0.4.7 writer -> current reader and -> decoder
    match build_old(cfg, entries) {
        Ok(old_bytes) => {
            ctx.tag("codecs_0.4.7_writer", gen::codec_name(cfg.codec));
            ctx.count("0.4.7_to_current_reads", 1);
            match open_cursor(Cursor::new(&old_bytes[..])) {
                Ok(mut c) => {
                    if c.len() != entries.len() as u64 || c.compression_type() != cfg.codec {
                        ctx.violation("old-file-metadata", stream, idx, detail("current reader reports wrong count/codec for a 0.4.7 file", format!("len={} codec={:?}", c.len(), c.compression_type())));
                    }
                    match scan_forward(&mut c, entries.len() + 2) {
                        Ok(got) => {
                            if let Some(d) = first_diff(entries, &got) {
                                ctx.violation("old-file-scan-differs", stream, idx, detail("current reader recovers different entries from a 0.4.7 file", d));
                            }
                        }
                        Err(e) => ctx.violation("old-file-scan-failed", stream, idx, detail("current reader fails scanning a 0.4.7 file", e)),
                    }
                }
                Err(e) => ctx.violation("old-file-open-failed", stream, idx, detail("current reader cannot open a 0.4.7 file", e)),
            }
            let q = Q { ctx, stream, idx, label, cfg: cfg.render(), entries, sig: "old-file-" };
            check_seeks(&q, || Cursor::new(&old_bytes[..]), &probes, &[]);
            if let Err(e) = decoder::decode(&old_bytes, Some(cfg.eff_interval())) {
                // informational: validates the decoder against the second implementation
                ctx.count("decoder_rejects_0.4.7_file", 1);
                ctx.harness_error(format!("independent decoder rejects a 0.4.7 file ({}): {}", cfg.render(), e));
            }
        }
        Err(e) => {
            ctx.count("0.4.7_writer_failed", 1);
            ctx.tag("0.4.7_writer_failures", &e.chars().take(80).collect::<String>());
        }
    }
    ctx.sample(|| J::obj().set("case", label).set("config", cfg.render()).set("n_entries", entries.len()).set("file_bytes", bytes.len()).set("trailer_hex", hex(&bytes[bytes.len() - 22..])));
}

pub fn run(ctx: &Ctx) -> i32 {
    let structured = gen::structured_cases(ctx.tier == Tier::Thorough);
    ctx.par("structured", structured.len(), false, |idx, rng| {
        let c = &structured[idx as usize];
        check_case(ctx, "structured", idx, &c.label, &c.cfg, &c.entries, rng);
    });
    let n = ctx.n(2000, 150_000);
    ctx.par("random", n, true, |idx, rng| {
        let (entries, cfg, shape) = gen::gen_file_case(rng, 50_000);
        check_case(ctx, "random", idx, &format!("random/{:?}", shape), &cfg, &entries, rng);
    });
    let n = ctx.n(300, 20_000);
    ctx.par("deep", n, true, |idx, rng| {
        let levels = *rng.pick(&[2u8, 2, 3, 3, 4, 7, 255]);
        let cnt = rng.range(20, 140);
        let (entries, cfg) = gen::gen_deep_case(rng, levels, cnt);
        check_case(ctx, "deep", idx, "deep", &cfg, &entries, rng);
    });
    if ctx.only.is_none() {
        for c in gen::codecs() {
            ctx.obligation(&format!("codec {}: current writer -> decoder and 0.4.7 reader", gen::codec_name(c)), ctx.has_tag("codecs_current_writer", gen::codec_name(c)));
            ctx.obligation(&format!("codec {}: 0.4.7 writer -> current reader", gen::codec_name(c)), ctx.has_tag("codecs_0.4.7_writer", gen::codec_name(c)));
        }
        ctx.obligation("multi-block index levels", ctx.counter("files_with_multi_block_deep_index") > 0);
    }
    ctx.finish(
        "exploration",
        "per generated (config, entries) case: (a) the file of the current writer is parsed by the independent decoder, which checks the sequential tiling into u64-BE length-prefixed blocks, per-block varint framing, offsets table (first 0, one per interval, u32-BE count), key order, the index tree (each entry = last key of child -> child offset, uniform depth = levels, every block reachable once), the 22-byte LE trailer (root offset, codec id from the harness's own id table, count, levels, magic) and recovers the entries; (b) the frozen grenad 0.4.7 reader scans and seeks it; (c) the same case written by the 0.4.7 writer is scanned and probed (GE/LE/EQ) by the current reader. non-trivial = file with >= 2 data blocks; distinct = distinct (config, entries) hash",
        &[
            "codec crates (snap, flate2, lz4_flex, zstd) are shared between the library, the decoder and 0.4.7: their byte formats are theirs, not grenad's",
            "grenad 0.4.7 is built without overflow checks (its own index_levels(255) arithmetic wraps harmlessly)",
        ],
        J::obj(),
    )
}
