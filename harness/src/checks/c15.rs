//! C15 — blocks are cut at the configured block size.

use crate::decoder;
use crate::gen::{self, Entry, KeyShape, ValShape, WCfg};
use crate::json::J;
use crate::prng::Rng;
use crate::verdict::{Ctx, Tier};

fn check_case(ctx: &Ctx, stream: &str, idx: u64, label: &str, cfg: &WCfg, entries: &[Entry]) {
    let Ok(bytes) = gen::build_file(cfg, entries) else {
        ctx.count("files_unbuildable_skipped", 1);
        return;
    };
    if cfg.block_size.map(|b| b < 1024).unwrap_or(false) {
        ctx.count("files_with_block_size_below_clamp", 1);
    }
    let describe = J::obj().set("case", label).set("config", cfg.render()).set("n_entries", entries.len()).set("entries", gen::render_entries(entries, 4));
    let multi = judge_file(ctx, stream, idx, describe.clone(), cfg.eff_block_size(), cfg.eff_interval(), &bytes);
    ctx.count("files", 1);
    ctx.eval(gen::case_hash(cfg, entries), multi);
    ctx.sample(|| describe);
}

/// Applies the cut rule to every judged block of one finished file. Returns whether the file has
/// >= 2 data blocks.
fn judge_file(ctx: &Ctx, stream: &str, idx: u64, describe: J, b_eff: usize, interval: usize, bytes: &[u8]) -> bool {
    let df = match decoder::decode(bytes, None) {
        Ok(d) => d,
        Err(_) => {
            ctx.count("files_undecodable_skipped", 1);
            return false;
        }
    };
    let levels = df.trailer.levels as usize;
    let mut judged = 0u64;
    let mut deep_judged = 0u64;
    let detail = |what: &str, obs: String| describe.clone().set("effective_block_size", b_eff).set("what", what).set("observed", obs);
    // judged levels: data blocks (depth levels+1) and index depth >= 2
    let mut level_lists: Vec<(usize, &Vec<usize>)> = vec![(levels + 1, &df.data_blocks)];
    for d in 2..df.index_levels.len() {
        level_lists.push((d, &df.index_levels[d]));
    }
    for (depth, list) in level_lists {
        for (pos, &bi) in list.iter().enumerate() {
            let b = &df.blocks[bi];
            let n = b.entries.len();
            if n == 0 {
                continue;
            }
            judged += 1;
            if depth <= levels {
                deep_judged += 1;
            }
            let size = b.size();
            let payload_wo_last = b.entries[n - 1].start;
            let offs_wo_last = std::cmp::max(1, (n - 1).div_ceil(interval));
            let size_wo_last = payload_wo_last + 8 * offs_wo_last + 4;
            let is_last = pos + 1 == list.len();
            ctx.tag("block_size_vs_B", if size >= b_eff { "size>=B" } else { "size<B (last of level)" });
            if size_wo_last >= b_eff {
                ctx.violation(
                    "cut-late",
                    stream,
                    idx,
                    detail("a block was not emitted as soon as it reached the block size: without its final entry it is already >= B", format!("block at {} depth {} size {} size-without-final-entry {}", b.offset, depth, size, size_wo_last)),
                );
            }
            if !is_last && size < b_eff {
                ctx.violation("cut-early", stream, idx, detail("a block that is not the last of its level was emitted below the block size", format!("block at {} depth {} size {} ({} entries)", b.offset, depth, size, n)));
            }
            ctx.max("max_overshoot_over_B", size.saturating_sub(b_eff) as u64);
        }
    }
    // depth 0/1 blocks: measured, never judged
    for d in 0..df.index_levels.len().min(2) {
        for &bi in &df.index_levels[d] {
            ctx.max("max_unjudged_depth0_1_block_size", df.blocks[bi].size() as u64);
        }
    }
    ctx.count("blocks_judged", judged);
    ctx.count("deep_index_blocks_judged", deep_judged);
    if deep_judged > 0 {
        ctx.count("files_with_judged_deep_index_blocks", 1);
    }
    df.data_blocks.len() >= 2
}

/// The chunk files a sorter writes (plain spills and merged chunks) obey the block size the
/// sorter was configured with.
fn sorter_chunks_case(ctx: &Ctx, idx: u64, rng: &mut Rng) {
    use super::sorter_common::{gen_inserts_capped, gen_scfg};
    use crate::io_mon::{MonChunkCreator, Split};
    use crate::merge_mon::{MergeKind, MonMerge};
    let mut scfg = gen_scfg(rng);
    scfg.parallel = false;
    scfg.budget = *rng.pick(&[4096usize, 16_384, 65_536]);
    scfg.initial = if scfg.allow_realloc { Some(scfg.budget / 4) } else { None };
    scfg.max_nb_chunks = *rng.pick(&[1usize, 2, 3, 25]);
    scfg.block_size = Some(*rng.pick(&[0usize, 1024, 1024, 1500, 2048, 4096]));
    scfg.interval = Some(*rng.pick(&[1usize, 3, 8]));
    scfg.levels = Some(rng.range(0, 3) as u8);
    let uni = *rng.pick(&[200usize, 5000]);
    let volume = scfg.budget * rng.range(2, 10);
    let plan = gen_inserts_capped(rng, 6000, uni, 60, false, None, volume);
    let cc = MonChunkCreator::new(None, Split::Full, Split::Full, 0);
    let r = crate::verdict::guarded(|| -> Result<Vec<Vec<u8>>, String> {
        let mut sorter = scfg.build(MonMerge::with_plan(MergeKind::Last, None), cc);
        for (k, v) in &plan.inserts {
            sorter.insert(k, v).map_err(|e| e.to_string())?;
        }
        let cursors = sorter.into_reader_cursors().map_err(|e| e.to_string())?;
        Ok(cursors.into_iter().map(|c| c.into_inner().data().to_vec()).collect())
    });
    let Ok(Ok(chunks)) = r else {
        ctx.count("sorter_runs_failed_skipped", 1);
        return;
    };
    let b_eff = scfg.block_size.unwrap_or(8192).max(1024);
    let mut multi = false;
    for (ci, bytes) in chunks.iter().enumerate() {
        let describe = J::obj().set("case", format!("sorter chunk file #{} of {}", ci, chunks.len())).set("sorter", scfg.render()).set("n_inserts", plan.inserts.len());
        multi |= judge_file(ctx, "sorter-chunks", idx, describe, b_eff, scfg.interval.unwrap_or(8), bytes);
        ctx.count("sorter_chunk_files_judged", 1);
    }
    ctx.eval(crate::prng::mix(&[crate::prng::hash_bytes(1, scfg.render().as_bytes()), plan.inserts.len() as u64, idx]), multi);
}

/// Entries whose sizes sit around the block size.
fn gen_boundary_case(rng: &mut Rng) -> (Vec<Entry>, WCfg) {
    let mut cfg = gen::gen_cfg(rng, true);
    let b = *rng.pick(&[0usize, 1000, 1024, 1024, 1025, 1500, 2048, 4096]);
    cfg.block_size = Some(b);
    let b_eff = b.max(1024);
    cfg.levels = Some(*rng.pick(&[0u8, 1, 2, 2, 3, 4, 5]));
    cfg.interval = Some(*rng.pick(&[1usize, 1, 2, 3, 8, 64]));
    let n = rng.range(2, 80);
    let mut entries = Vec::new();
    if rng.chance(1, 6) {
        // the empty key first, with a value that alone (nearly) fills a block
        entries.push((vec![], rng.bytes(rng.clone().range(b_eff.saturating_sub(30), b_eff + 10))));
    }
    for i in 0..n {
        let mut k = (i as u32 + 1).to_be_bytes().to_vec();
        let total = match rng.below(6) {
            0 => rng.range(b_eff.saturating_sub(40), b_eff + 40),
            1 => rng.range(b_eff / 2 - 20, b_eff / 2 + 20),
            2 => rng.range(b_eff, 3 * b_eff),
            3 => rng.range(b_eff / 3 - 10, b_eff / 3 + 10),
            _ => rng.range(4, 60),
        };
        let klen = if rng.chance(1, 2) { total.saturating_sub(4).min(total) / 2 } else { 0 };
        k.extend(rng.bytes(klen));
        let vlen = total.saturating_sub(k.len());
        entries.push((k, rng.bytes(vlen)));
    }
    (entries, cfg)
}

pub fn run(ctx: &Ctx) -> i32 {
    let structured = gen::structured_cases(ctx.tier == Tier::Thorough);
    ctx.par("structured", structured.len(), false, |idx, _| {
        let c = &structured[idx as usize];
        check_case(ctx, "structured", idx, &c.label, &c.cfg, &c.entries);
    });
    let n = ctx.n(4000, 250_000);
    ctx.par("random", n, true, |idx, rng| {
        let (entries, cfg, shape) = gen::gen_file_case(rng, 60_000);
        check_case(ctx, "random", idx, &format!("random/{:?}", shape), &cfg, &entries);
    });
    let n = ctx.n(5000, 300_000);
    ctx.par("boundary", n, true, |idx, rng| {
        let (entries, cfg) = gen_boundary_case(rng);
        check_case(ctx, "boundary", idx, "entry sizes around B", &cfg, &entries);
    });
    let n = ctx.n(2500, 120_000);
    ctx.par("deep", n, true, |idx, rng| {
        let levels = *rng.pick(&[2u8, 3, 3, 4, 5]);
        let cnt = rng.range(20, 200);
        let (mut entries, mut cfg) = gen::gen_deep_case(rng, levels, cnt);
        if rng.chance(1, 3) {
            cfg.block_size = Some(rng.range(1024, 3000));
        }
        if rng.chance(1, 4) {
            entries = gen::gen_entries(rng, KeyShape::K3, ValShape::Mixed, cnt);
        }
        check_case(ctx, "deep", idx, "deep", &cfg, &entries);
    });
    let n = ctx.n(600, 40_000);
    ctx.par("sorter-chunks", n, true, |idx, rng| sorter_chunks_case(ctx, idx, rng));
    if ctx.only.is_none() {
        ctx.obligation("sorter chunk files judged", ctx.counter("sorter_chunk_files_judged") > 0);
        let files = ctx.counter("files").max(1);
        ctx.obligation("index blocks at depth >= 2 judged in >= 15% of files", ctx.counter("files_with_judged_deep_index_blocks") * 100 / files >= 15);
        ctx.obligation("block sizes on both sides of B", ctx.tag_count("block_size_vs_B") == 2);
        ctx.obligation("block size below the clamp", ctx.counter("files_with_block_size_below_clamp") > 0);
    }
    ctx.finish(
        "exploration",
        "per generated file the independent decoder yields every block's depth, entries and uncompressed size; for each data block and each index block at depth >= 2: (1) its size recomputed without its final entry (payload' + 8*max(1,ceil((n-1)/interval)) + 4) must be < B, (2) unless it is the last block of its level its size must be >= B, with B = max(configured, 1024). Depth-0/1 index blocks are measured, never judged. Workloads: structured list, random files, entry sizes around B (B-40..B+40, B/2, B/3, 1-3xB), deep files with long keys, and the chunk files written by sorters (plain spills and merged chunks, read through into_reader_cursors) judged against the sorter's configured block size. non-trivial = file with >= 2 data blocks; distinct = distinct (config, entries) hash",
        &["the offsets-table size of a block is derived from the configured interval", "files are produced by the real writer and must be decodable (C09 checks that separately)"],
        J::obj(),
    )
}
