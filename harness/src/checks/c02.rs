//! C02 — seeks return the exact ceiling, floor or match of the probe key.

use std::io::Cursor;

use super::files::{for_each_file, Sizes};
use super::query::{check_seeks, Q};
use crate::gen;
use crate::json::J;
use crate::verdict::{Ctx, Tier};

pub fn run(ctx: &Ctx) -> i32 {
    let sizes = Sizes { random: (3000, 40_000), deep: (800, 10_000), level0_only: false, max_levels: 255, budget: 50_000 };
    let max_keys = ctx.tier.pick(40, 400);
    for_each_file(ctx, &sizes, |b, rng| {
        let keys: Vec<&[u8]> = b.entries.iter().map(|(k, _)| k.as_slice()).collect();
        let many = if b.cfg.eff_levels() > 16 { max_keys / 4 } else { max_keys };
        let probes = gen::probes(rng, &keys, many.max(4));
        let q = Q { ctx, stream: b.stream, idx: b.idx, label: &b.label, cfg: b.cfg.render(), entries: &b.entries, sig: "" };
        check_seeks(&q, || Cursor::new(&b.bytes[..]), &probes, &b.block_first());
        ctx.eval(gen::case_hash(&b.cfg, &b.entries), b.nontrivial());
        ctx.sample(|| {
            J::obj().set("case", b.label.as_str()).set("config", b.cfg.render()).set("n_entries", b.entries.len()).set("n_probes", probes.len()).set(
                "probes",
                J::Arr(probes.iter().take(5).map(|p| J::Str(crate::json::hex(p))).collect()),
            )
        });
    });
    if ctx.only.is_none() {
        for c in ["present", "gap", "before-first", "after-last", "empty-probe", "gap:prefix-of-key", "gap:extension-of-key"] {
            ctx.obligation(&format!("probe class {}", c), ctx.has_tag("probe_classes", c));
        }
        ctx.obligation("files with >= 2 blocks at an index depth >= 2", ctx.counter("files_with_multi_block_deep_index") > 0);
        ctx.obligation("probes whose ceiling is the first entry of a block", ctx.counter("probes_ceiling_is_first_of_block") > 0);
        ctx.obligation("probes whose floor is the last entry of a block", ctx.counter("probes_floor_is_last_of_block") > 0);
    }
    let _ = Tier::Quick;
    ctx.finish(
        "exploration",
        "per generated file (structured list + seeded random + deep-index files) an equivalence-class probe set (stored keys, immediate successors k+0x00, k+0xFF, k minus last byte, last byte +-1, empty, 0x00, 0xFF.., below-first, above-last, random) is issued as GE/LE/EQ on alternately brand-new and reset cursors and compared with partition_point on the sorted entry list. non-trivial = file with >= 2 data blocks; distinct = distinct (config, entries) hash",
        &["files are produced by the real writer (C01/C09 check the writer separately)", "probes per file are sampled above 40 (quick) / 400 (thorough) stored keys"],
        J::obj(),
    )
}
