//! Query oracles shared by C02, C04, C05, C10 and C11: seeks, range iterators and prefix
//! iterators of the real reader compared with the reference model, generic over the source.

use std::io::{Read, Seek};
use std::ops::Bound;

use grenad::Reader;

use crate::cur::{apply, Entry, Op};
use crate::json::{hex, hex_opt, J};
use crate::model::Model;
use crate::prng::Rng;
use crate::verdict::{guarded, Ctx};

pub struct Q<'a> {
    pub ctx: &'a Ctx,
    pub stream: &'a str,
    pub idx: u64,
    pub label: &'a str,
    pub cfg: String,
    pub entries: &'a [Entry],
    /// prefix for violation signatures (e.g. "v1-" or "split-")
    pub sig: &'a str,
}

impl<'a> Q<'a> {
    pub fn detail(&self, what: &str, query: String, expected: String, observed: String) -> J {
        J::obj()
            .set("case", self.label)
            .set("config", self.cfg.as_str())
            .set("n_entries", self.entries.len())
            .set("entries", crate::gen::render_entries(self.entries, 6))
            .set("what", what)
            .set("query", query)
            .set("expected", expected)
            .set("observed", observed)
    }
    pub fn viol(&self, sig: &str, what: &str, query: String, expected: String, observed: String) {
        self.ctx.violation(&format!("{}{}", self.sig, sig), self.stream, self.idx, self.detail(what, query, expected, observed));
    }
}

pub fn open_cursor<R: Read + Seek>(src: R) -> Result<grenad::ReaderCursor<R>, String> {
    match guarded(|| Reader::new(src).and_then(|r| r.into_cursor())) {
        Ok(Ok(c)) => Ok(c),
        Ok(Err(e)) => Err(format!("error: {}", e)),
        Err(p) => Err(format!("panic: {}", p)),
    }
}

/// Classifies a probe relative to the sorted keys (for coverage accounting).
pub fn probe_class(m: &Model, q: &[u8]) -> &'static str {
    if m.len() == 0 {
        return "empty-file";
    }
    if q.is_empty() {
        return "empty-probe";
    }
    if m.eq(q).is_some() {
        return "present";
    }
    if q < m.e[0].0.as_slice() {
        return "before-first";
    }
    if q > m.e[m.len() - 1].0.as_slice() {
        return "after-last";
    }
    // strictly inside a gap
    let ge = m.ge(q).unwrap();
    if m.e[ge].0.starts_with(q) {
        return "gap:prefix-of-key";
    }
    if ge > 0 && q.starts_with(&m.e[ge - 1].0) {
        return "gap:extension-of-key";
    }
    "gap"
}

/// C02 oracle: the three seeks for each probe on brand-new and on reset cursors.
/// `block_first`: global indices of the first entry of each data block (for the block-edge class).
pub fn check_seeks<R: Read + Seek, F: Fn() -> R>(q: &Q, mk: F, probes: &[Vec<u8>], block_first: &[usize]) {
    let m = Model::new(q.entries);
    let mut reused = match open_cursor(mk()) {
        Ok(c) => c,
        Err(e) => {
            q.viol("open-failed", "cannot open a valid file", "open".into(), "Ok".into(), e);
            return;
        }
    };
    for (pi, p) in probes.iter().enumerate() {
        let class = probe_class(&m, p);
        q.ctx.tag("probe_classes", class);
        let exp_ge = m.ge(p);
        let exp_le = m.le(p);
        if let Some(i) = exp_ge {
            if i > 0 && block_first.binary_search(&i).is_ok() && m.eq(p).is_none() {
                q.ctx.count("probes_ceiling_is_first_of_block", 1);
            }
        }
        if let Some(i) = exp_le {
            if block_first.binary_search(&(i + 1)).is_ok() && m.eq(p).is_none() {
                q.ctx.count("probes_floor_is_last_of_block", 1);
            }
        }
        for (op, exp) in [(Op::Ge(p.clone()), m.get(exp_ge)), (Op::Le(p.clone()), m.get(exp_le)), (Op::Eq(p.clone()), m.get(m.eq(p)))] {
            // alternate: brand-new cursor / reset cursor
            let fresh = pi % 2 == 0;
            let got = if fresh {
                match open_cursor(mk()) {
                    Ok(mut c) => apply(&mut c, &op),
                    Err(e) => Err(e),
                }
            } else {
                // the reset cursor has a history: a few moves (scans, seeks) precede the reset
                if !q.entries.is_empty() {
                    let h = crate::prng::hash_bytes(pi as u64, p);
                    let k = &q.entries[(h as usize) % q.entries.len()].0;
                    let _ = apply(&mut reused, &Op::Ge(k.clone()));
                    for _ in 0..(h >> 8) % 70 {
                        let _ = apply(&mut reused, if h & 1 == 0 { &Op::Next } else { &Op::Prev });
                    }
                }
                let _ = apply(&mut reused, &Op::Reset);
                apply(&mut reused, &op)
            };
            q.ctx.count("seeks_checked", 1);
            match got {
                Ok(g) => {
                    if g != exp {
                        q.viol(
                            &format!("seek-{}-wrong", op.kind()),
                            "seek result differs from the model",
                            format!("{} on a {} cursor (probe class {})", op.render(), if fresh { "brand-new" } else { "reset" }, class),
                            hex_opt(&exp),
                            hex_opt(&g),
                        );
                    }
                }
                Err(e) => q.viol(&format!("seek-{}-failed", op.kind()), "seek failed on a valid file", op.render(), hex_opt(&exp), e),
            }
        }
    }
}

pub fn bound_kind(b: &Bound<Vec<u8>>) -> &'static str {
    match b {
        Bound::Unbounded => "U",
        Bound::Included(_) => "I",
        Bound::Excluded(_) => "E",
    }
}

pub fn render_bound(b: &Bound<Vec<u8>>) -> String {
    match b {
        Bound::Unbounded => "Unbounded".into(),
        Bound::Included(x) => format!("Included({})", hex(x)),
        Bound::Excluded(x) => format!("Excluded({})", hex(x)),
    }
}

pub fn gen_bound(rng: &mut Rng, kind: usize, probes: &[Vec<u8>]) -> Bound<Vec<u8>> {
    match kind {
        0 => Bound::Unbounded,
        1 => Bound::Included(rng.pick(probes).clone()),
        _ => Bound::Excluded(rng.pick(probes).clone()),
    }
}

/// C04 oracle for one pair of bounds: forward and reverse range iterators vs the model.
pub fn check_range<R: Read + Seek, F: Fn() -> R>(q: &Q, mk: F, start: &Bound<Vec<u8>>, end: &Bound<Vec<u8>>) {
    let m = Model::new(q.entries);
    let exp_idx = m.in_range(start, end);
    let expected: Vec<Entry> = exp_idx.iter().map(|&i| q.entries[i].clone()).collect();
    let query = format!("range({}, {})", render_bound(start), render_bound(end));
    q.ctx.tag("bound_kind_pairs", &format!("{}{}", bound_kind(start), bound_kind(end)));
    if let (Bound::Included(a) | Bound::Excluded(a), Bound::Included(b) | Bound::Excluded(b)) = (start, end) {
        if a > b {
            q.ctx.count("inverted_ranges", 1);
        } else if a == b {
            q.ctx.tag("equal_bound_pairs", &format!("{}{}", bound_kind(start), bound_kind(end)));
        }
    }
    if expected.is_empty() {
        q.ctx.count("empty_result_ranges", 1);
    } else {
        q.ctx.count("nonempty_result_ranges", 1);
    }
    let limit = expected.len() + 2;
    // forward
    let fwd = guarded(|| -> Result<Vec<Entry>, String> {
        let r = Reader::new(mk()).map_err(|e| format!("error: {}", e))?;
        let mut it = r.into_range_iter((start.clone(), end.clone())).map_err(|e| format!("error: {}", e))?;
        let mut out = Vec::new();
        while let Some((k, v)) = it.next().map_err(|e| format!("error: {}", e))? {
            out.push((k.to_vec(), v.to_vec()));
            if out.len() > limit {
                return Err("iterator yields more entries than the file can hold in range".into());
            }
        }
        Ok(out)
    });
    judge(q, "range-forward", &query, &expected, fwd);
    let rev = guarded(|| -> Result<Vec<Entry>, String> {
        let r = Reader::new(mk()).map_err(|e| format!("error: {}", e))?;
        let mut it = r.into_rev_range_iter((start.clone(), end.clone())).map_err(|e| format!("error: {}", e))?;
        let mut out = Vec::new();
        while let Some((k, v)) = it.next().map_err(|e| format!("error: {}", e))? {
            out.push((k.to_vec(), v.to_vec()));
            if out.len() > limit {
                return Err("iterator yields more entries than the file can hold in range".into());
            }
        }
        Ok(out)
    });
    let mut rexp = expected.clone();
    rexp.reverse();
    judge(q, "range-reverse", &query, &rexp, rev);
}

fn judge(q: &Q, sig: &str, query: &str, expected: &[Entry], got: Result<Result<Vec<Entry>, String>, String>) {
    q.ctx.count("iterations_checked", 1);
    match got {
        Ok(Ok(g)) => {
            if let Some(d) = crate::cur::first_diff(expected, &g) {
                q.viol(&format!("{}-wrong", sig), "iterator output differs from the model", query.to_string(), format!("{} entries", expected.len()), d);
            }
        }
        Ok(Err(e)) => q.viol(&format!("{}-failed", sig), "iterator failed on a valid file", query.to_string(), format!("{} entries", expected.len()), e),
        Err(p) => q.viol(&format!("{}-failed", sig), "iterator panicked on a valid file", query.to_string(), format!("{} entries", expected.len()), format!("panic: {}", p)),
    }
}

/// C05 oracle for one prefix.
pub fn check_prefix<R: Read + Seek, F: Fn() -> R>(q: &Q, mk: F, prefix: &[u8]) {
    let m = Model::new(q.entries);
    let expected: Vec<Entry> = m.with_prefix(prefix).iter().map(|&i| q.entries[i].clone()).collect();
    let query = format!("prefix({})", hex(prefix));
    let limit = expected.len() + 2;
    let fwd = guarded(|| -> Result<Vec<Entry>, String> {
        let r = Reader::new(mk()).map_err(|e| format!("error: {}", e))?;
        let mut it = r.into_prefix_iter(prefix.to_vec()).map_err(|e| format!("error: {}", e))?;
        let mut out = Vec::new();
        while let Some((k, v)) = it.next().map_err(|e| format!("error: {}", e))? {
            out.push((k.to_vec(), v.to_vec()));
            if out.len() > limit {
                return Err("iterator yields more entries than share the prefix".into());
            }
        }
        Ok(out)
    });
    judge(q, "prefix-forward", &query, &expected, fwd);
    let rev = guarded(|| -> Result<Vec<Entry>, String> {
        let r = Reader::new(mk()).map_err(|e| format!("error: {}", e))?;
        let mut it = r.into_rev_prefix_iter(prefix.to_vec()).map_err(|e| format!("error: {}", e))?;
        let mut out = Vec::new();
        while let Some((k, v)) = it.next().map_err(|e| format!("error: {}", e))? {
            out.push((k.to_vec(), v.to_vec()));
            if out.len() > limit {
                return Err("iterator yields more entries than share the prefix".into());
            }
        }
        Ok(out)
    });
    let mut rexp = expected.clone();
    rexp.reverse();
    judge(q, "prefix-reverse", &query, &rexp, rev);
}

/// Classifies a prefix (coverage accounting for C05).
pub fn prefix_class(m: &Model, p: &[u8]) -> String {
    let matches = m.with_prefix(p).len();
    let mut c = String::new();
    if p.is_empty() {
        c.push_str("empty");
    } else if p.iter().all(|b| *b == 0xff) {
        c.push_str("all-0xFF");
    } else if *p.last().unwrap() == 0xff {
        c.push_str("ends-in-0xFF");
    } else {
        c.push_str("plain");
    }
    if m.eq(p).is_some() {
        c.push_str("+is-stored-key");
    }
    if m.e.iter().all(|(k, _)| k.len() < p.len()) && m.len() > 0 {
        c.push_str("+longer-than-every-key");
    }
    // successor (0xFF-carry) stored?
    let mut s = p.to_vec();
    while let Some(l) = s.last_mut() {
        if *l < 0xff {
            *l += 1;
            break;
        }
        s.pop();
    }
    if !s.is_empty() && m.eq(&s).is_some() {
        c.push_str("+successor-is-stored-key");
    }
    c.push_str(match matches {
        0 => "/no-match",
        1 => "/one-match",
        _ => "/many-matches",
    });
    c
}

/// Prefix probe set: every class of C05.
pub fn gen_prefixes(rng: &mut Rng, entries: &[Entry], per_file: usize) -> Vec<Vec<u8>> {
    let mut out: Vec<Vec<u8>> = vec![vec![], vec![0xff], vec![0xff, 0xff], vec![0x00], vec![0x61]];
    let maxlen = entries.iter().map(|(k, _)| k.len()).max().unwrap_or(0);
    out.push(vec![0x61; maxlen + 2]);
    if entries.is_empty() {
        return out;
    }
    for _ in 0..per_file {
        let k = &entries[rng.below(entries.len())].0;
        match rng.below(8) {
            0 => out.push(k.clone()),
            1 => {
                let mut p = k.clone();
                p.push(rng.byte());
                out.push(p);
            }
            2 => {
                let mut p = k.clone();
                p.push(0xff);
                out.push(p);
            }
            3 | 4 => {
                let l = rng.range(0, k.len());
                out.push(k[..l].to_vec());
            }
            5 => {
                // a prefix whose successor is a stored key: predecessor of a stored key's prefix
                let l = rng.range(0, k.len());
                let mut p = k[..l].to_vec();
                if let Some(last) = p.last_mut() {
                    if *last > 0 {
                        *last -= 1;
                        out.push(p.clone());
                        p.push(0xff);
                        out.push(p);
                    }
                }
            }
            6 => {
                let l = rng.range(0, k.len().min(3));
                let mut p = k[..l].to_vec();
                p.push(0xff);
                if rng.chance(1, 2) {
                    p.push(0xff);
                }
                out.push(p);
            }
            _ => {
                let len = rng.range(1, 4);
                out.push(rng.bytes(len));
            }
        }
    }
    out
}
