//! C18 — a writer never emits an unsorted block: out-of-order inserts panic.

use crate::decoder;
use crate::gen::{self, Entry, KeyShape, ValShape, WCfg};
use crate::json::{hex, J};
use crate::prng::Rng;
use crate::verdict::{guarded, Ctx};

/// Outcome of feeding a sequence to the real writer.
enum Outcome {
    PanicAtInsert(usize, String),
    PanicAtFinish(String),
    IoError(String),
    Finished(Vec<u8>),
}

fn feed(cfg: &WCfg, seq: &[Entry]) -> Outcome {
    let mut w = Some(cfg.builder().memory());
    for (i, (k, v)) in seq.iter().enumerate() {
        let r = guarded(|| w.as_mut().unwrap().insert(k, v));
        match r {
            Ok(Ok(())) => {}
            Ok(Err(e)) => return Outcome::IoError(e.to_string()),
            Err(p) => {
                // a panicking writer is abandoned (its state is unspecified), never reused; it is
                // dropped under the same guard (leaking it would exhaust memory over millions of
                // sequences)
                let dead = w.take();
                let _ = guarded(move || drop(dead));
                return Outcome::PanicAtInsert(i, p);
            }
        }
    }
    let wr = w.take().unwrap();
    match guarded(move || wr.into_inner()) {
        Ok(Ok(b)) => Outcome::Finished(b),
        Ok(Err(e)) => Outcome::IoError(e.to_string()),
        Err(p) => Outcome::PanicAtFinish(p),
    }
}

fn perturb(rng: &mut Rng, base: &[Entry], cfg: &WCfg) -> (Vec<Entry>, &'static str) {
    let mut seq = base.to_vec();
    let n = seq.len();
    if n < 2 {
        return (seq, "ascending");
    }
    // approximate number of entries per data block, to aim at block starts
    let avg = (seq.iter().map(|(k, v)| k.len() + v.len() + 3).sum::<usize>() / n).max(1);
    let per_block = (cfg.eff_block_size() / avg).max(1);
    let block_start = |rng: &mut Rng| -> usize {
        let nb = (n / per_block).max(1);
        ((rng.range(1, nb)) * per_block + rng.below(3)).saturating_sub(1).min(n - 1).max(1)
    };
    match rng.below(10) {
        0 => (seq, "ascending"),
        1 => {
            let i = rng.range(1, n - 1);
            seq[i].0 = seq[i - 1].0.clone();
            (seq, "duplicate-of-predecessor")
        }
        2 => {
            let i = rng.range(0, n - 2);
            seq.swap(i, i + 1);
            (seq, "adjacent-swap")
        }
        3 => {
            let i = rng.range(0, n - 2);
            let len = rng.range(2, (n - i).min(6));
            seq[i..i + len].reverse();
            (seq, "descending-run")
        }
        4 => {
            // first key of a (probable) new block equal to the previous block's last key
            let i = block_start(rng);
            seq[i].0 = seq[i - 1].0.clone();
            (seq, "block-start-equals-previous-last")
        }
        5 => {
            // first key of a (probable) new block far below everything before it, rest ascending
            let i = block_start(rng);
            seq[i].0 = vec![];
            if i + 1 < n && seq[i + 1].0.is_empty() {
                seq[i + 1].0 = vec![0];
            }
            (seq, "block-start-below-previous-block")
        }
        6 => {
            // a whole tail restarted from the smallest keys (out of order only at one point)
            let i = block_start(rng);
            let tail: Vec<Entry> = base[..n - i].to_vec();
            seq.truncate(i);
            seq.extend(tail);
            (seq, "restart-from-smallest-at-block-start")
        }
        7 => {
            let i = rng.range(0, n - 1);
            let j = rng.range(0, n - 1);
            seq.swap(i, j);
            (seq, "random-swap")
        }
        8 => {
            let i = rng.range(0, n - 1);
            let e = seq[i].clone();
            let j = rng.range(0, n - 1);
            seq.insert(j, e);
            (seq, "duplicate-anywhere")
        }
        _ => {
            rng.shuffle(&mut seq);
            (seq, "shuffled")
        }
    }
}

fn check_seq(ctx: &Ctx, stream: &str, idx: u64, cfg: &WCfg, seq: &[Entry], kind: &str) {
    let detail = |what: &str, obs: String| J::obj().set("perturbation", kind).set("config", cfg.render()).set("n_inserts", seq.len()).set("keys", J::Arr(seq.iter().take(40).map(|(k, _)| J::Str(hex(k))).collect())).set("what", what).set("observed", obs);
    // index of the first insert that breaks strict ascent of the whole sequence
    let first_bad = (1..seq.len()).find(|&i| seq[i - 1].0 >= seq[i].0 || (0..i).any(|j| seq[j].0 >= seq[i].0));
    let sorted = first_bad.is_none();
    ctx.tag("perturbations", kind);
    let mut h = crate::prng::hash_bytes(9, cfg.render().as_bytes());
    for (k, _) in seq {
        h = crate::prng::mix(&[h, crate::prng::hash_bytes(2, k)]);
    }
    ctx.eval(h, !sorted);
    match feed(cfg, seq) {
        Outcome::PanicAtInsert(i, msg) => {
            ctx.count("panics_at_insert", 1);
            // justified only if the prefix up to and including insert i is not strictly ascending
            let justified = first_bad.map(|b| b <= i).unwrap_or(false);
            if !justified {
                ctx.violation("panic-on-ascending-prefix", stream, idx, detail("insert panicked although every key so far was strictly greater than all before it", format!("insert #{}: {}", i, msg)));
            }
        }
        Outcome::PanicAtFinish(msg) => {
            ctx.count("panics_at_finish", 1);
            if sorted {
                ctx.violation("panic-on-ascending-prefix", stream, idx, detail("finishing panicked on a strictly ascending sequence", msg));
            }
        }
        Outcome::IoError(e) => ctx.violation("io-error", stream, idx, detail("in-memory sink reported an error", e)),
        Outcome::Finished(bytes) => {
            if sorted {
                ctx.count("sorted_sequences_finished", 1);
            } else {
                ctx.count("unsorted_sequences_finished_without_panic", 1);
            }
            match decoder::decode_blocks(&bytes, None) {
                Ok((_t, blocks)) => {
                    ctx.count("blocks_checked", blocks.len() as u64);
                    for b in &blocks {
                        if let Some(i) = decoder::first_unsorted(b) {
                            ctx.violation(
                                "unsorted-block",
                                stream,
                                idx,
                                detail("no panic, and the finished file holds a block whose keys are not strictly ascending", format!("block at {}: entry {} key {} follows key {}", b.offset, i, hex(b.key(i)), hex(b.key(i - 1)))),
                            );
                            break;
                        }
                    }
                }
                Err(e) => {
                    if sorted {
                        ctx.violation("malformed-file", stream, idx, detail("file of a sorted sequence is not decodable", e));
                    } else {
                        // an unsorted sequence that did not panic must still give well-formed blocks
                        ctx.violation("malformed-file", stream, idx, detail("no panic, and the finished file cannot be split into blocks", e));
                    }
                }
            }
        }
    }
    ctx.sample(|| detail("sample", String::new()));
}

pub fn run(ctx: &Ctx) -> i32 {
    let n = ctx.n(100_000, 6_000_000);
    ctx.par("perturbed", n, true, |idx, rng| {
        let mut cfg = gen::gen_cfg(rng, true);
        cfg.block_size = Some(*rng.pick(&[0usize, 1024, 1024, 1024, 1500, 2048]));
        cfg.levels = Some(*rng.pick(&[0u8, 1, 2, 2, 3, 3]));
        // cheap codecs mostly: the property is about ordering, not compression
        if rng.chance(3, 4) {
            cfg.codec = grenad::CompressionType::None;
        }
        let shape = *rng.pick(&[KeyShape::K1, KeyShape::K2, KeyShape::K3, KeyShape::K3, KeyShape::K4]);
        let count = match shape {
            KeyShape::K3 => rng.range(4, 60),
            _ => rng.range(2, 400),
        };
        let base = if rng.chance(1, 5) {
            // mixed key widths around 8, 64 and 128 bytes over a tiny alphabet
            let widths: &[usize] = match rng.below(3) {
                0 => &[7, 8, 8, 9],
                1 => &[1, 63, 64, 65, 66],
                _ => &[8, 9, 64, 65, 127, 128, 129],
            };
            let mut keys: Vec<Vec<u8>> = (0..rng.range(3, 60))
                .map(|_| {
                    let w = *rng.pick(widths);
                    let mut k = vec![b'a'; w];
                    for _ in 0..2 {
                        let p = rng.below(w);
                        k[p] = *rng.pick(&[b'a', b'b', b'm', b'z']);
                    }
                    k
                })
                .collect();
            keys.sort();
            keys.dedup();
            keys.into_iter().map(|k| (k, vec![1u8])).collect()
        } else {
            gen::gen_entries(rng, shape, ValShape::Tiny, count)
        };
        let (seq, kind) = perturb(rng, &base, &cfg);
        check_seq(ctx, "perturbed", idx, &cfg, &seq, kind);
    });
    if ctx.only.is_none() {
        ctx.obligation("panics observed at insert", ctx.counter("panics_at_insert") > 0);
        ctx.obligation("unsorted sequences that legitimately finish without a panic (decoded and checked)", ctx.counter("unsorted_sequences_finished_without_panic") > 0);
        ctx.obligation("perturbations at block starts", ctx.has_tag("perturbations", "block-start-equals-previous-last") && ctx.has_tag("perturbations", "restart-from-smallest-at-block-start"));
    }
    ctx.finish(
        "exploration",
        "ascending sequences perturbed by duplicates, swaps, descending runs, shuffles and (aimed at probable block starts) a first key equal to / below the previous block's last key or a restart from the smallest keys, with small blocks and index levels 0-3, fed to the real writer; each sequence must either panic (justified only if the prefix up to the panicking insert is not strictly ascending) or yield a file that the independent decoder splits into blocks whose keys are all strictly ascending. Run in the plain release build and in the overflow/debug-checked build. non-trivial = sequence not strictly ascending; distinct = distinct (config, key sequence) hash",
        &["a sequence that is out of order only across a block edge and does not panic is accepted iff every block of the file is strictly ascending", "a panicking writer is abandoned (dropped), never reused"],
        J::obj(),
    )
}
