//! C14 — key and value lengths from 0 to 2^32-1 are framed losslessly.

use std::io::Cursor;

use grenad::verif::{varint_decode32, varint_encode32};
use grenad::Reader;

use crate::cur::Entry;
use crate::decoder::{read_varint, ref_leb128};
use crate::gen::{self, WCfg};
use crate::json::{hex, J};
use crate::verdict::{guarded, Ctx, Tier};

/// Checks one value through the real codec. Returns a description of the violation.
#[inline]
fn check_value(n: u32) -> Option<String> {
    let mut buf = [0u8; 10];
    let enc_len = {
        let enc = varint_encode32(&mut buf, n);
        enc.len()
    };
    if !(1..=5).contains(&enc_len) {
        return Some(format!("{} is encoded into {} bytes", n, enc_len));
    }
    // decode from a buffer with trailing garbage so that "consumes exactly those bytes" shows
    let mut data = [0xAAu8; 12];
    data[..enc_len].copy_from_slice(&buf[..enc_len]);
    data[enc_len] = 0xFF;
    let mut out = 0u32;
    let used = varint_decode32(&data, &mut out);
    if out != n {
        return Some(format!("{} encodes to {} and decodes to {}", n, hex(&buf[..enc_len]), out));
    }
    if used != enc_len {
        return Some(format!("{} encodes to {} bytes but decoding consumes {}", n, enc_len, used));
    }
    // and with a zero byte following (a different continuation context)
    data[enc_len] = 0x00;
    let mut out2 = 0u32;
    let used2 = varint_decode32(&data, &mut out2);
    if out2 != n || used2 != enc_len {
        return Some(format!("{}: decoding depends on the byte after the encoding (value {} used {})", n, out2, used2));
    }
    None
}

fn codec_part(ctx: &Ctx) {
    let exhaustive = ctx.tier == Tier::Thorough || std::env::var("VERIF_C14_FULL").is_ok() || cfg!(not(debug_assertions));
    let boundaries: [u64; 5] = [0, 1 << 7, 1 << 14, 1 << 21, 1 << 28];
    // around each boundary and the top of the domain
    ctx.par("boundaries", 6, false, |idx, _| {
        let center = if idx < 5 { boundaries[idx as usize] } else { u32::MAX as u64 };
        let lo = center.saturating_sub(1 << 15);
        let hi = (center + (1 << 15)).min(u32::MAX as u64);
        for n in lo..=hi {
            if let Some(v) = check_value(n as u32) {
                ctx.violation("length-codec", "boundaries", idx, J::obj().set("value", n).set("observed", v));
                break;
            }
        }
        ctx.count("codec_values_checked", hi - lo + 1);
        ctx.eval(crate::prng::mix(&[1, idx]), true);
    });
    // reference comparison on a sample: informational classes + sample rendering
    for n in [0u32, 1, 127, 128, 16383, 16384, (1 << 21) - 1, 1 << 21, (1 << 28) - 1, 1 << 28, u32::MAX] {
        let mut buf = [0u8; 10];
        let enc = varint_encode32(&mut buf, n).to_vec();
        ctx.tag("encoded_length_classes", &format!("{} bytes", enc.len()));
        if enc != ref_leb128(n) {
            ctx.count("encodings_differing_from_reference_LEB128(informational)", 1);
        }
        if read_varint(&enc).map(|(v, l)| (v, l)) != Some((n, enc.len())) {
            ctx.count("encodings_not_decodable_as_LEB128(informational)", 1);
        }
        ctx.sample(|| J::obj().set("length", n).set("encoded_hex", hex(&enc)));
    }
    if exhaustive {
        // all 2^32 values, split in 4096 slices
        let slices = 4096u64;
        let per = (1u64 << 32) / slices;
        ctx.par("all-2^32", slices as usize, false, |idx, _| {
            let lo = idx * per;
            for n in lo..lo + per {
                if let Some(v) = check_value(n as u32) {
                    ctx.violation("length-codec", "all-2^32", idx, J::obj().set("value", n).set("observed", v));
                    break;
                }
            }
            ctx.count("codec_values_checked", per);
            ctx.eval(crate::prng::mix(&[2, idx]), true);
        });
        ctx.count("exhaustive_2^32_sweep_done", 1);
    } else {
        // 2^24 strided values
        ctx.par("strided", 256, true, |idx, rng| {
            let stride = 255u64;
            let start = (rng.next_u64() % stride) + idx * ((1u64 << 32) / 256);
            let mut n = start;
            let end = (idx + 1) * ((1u64 << 32) / 256);
            let mut c = 0;
            while n < end {
                if let Some(v) = check_value(n as u32) {
                    ctx.violation("length-codec", "strided", idx, J::obj().set("value", n).set("observed", v));
                    break;
                }
                n += stride;
                c += 1;
            }
            ctx.count("codec_values_checked", c);
            ctx.eval(crate::prng::mix(&[3, idx]), true);
        });
    }
}

fn api_case(ctx: &Ctx, stream: &str, idx: u64, cfg: &WCfg, klen: usize, vlen: usize, placement: usize) {
    // the boundary entry alone in the file (placement 0), last (1), first (2) or in the middle (3),
    // so that it is also carried into index blocks as the last key of its block
    let mut k = vec![1u8; klen];
    if klen > 0 {
        k[klen - 1] = 7;
    }
    let v: Vec<u8> = (0..vlen).map(|i| (i % 251) as u8).collect();
    let before: Entry = (vec![0u8], vec![1, 2, 3]);
    let after: Entry = (vec![2u8; 3], vec![9; 5]);
    let mut entries: Vec<Entry> = vec![(k.clone(), v)];
    let can_precede = klen > 0 && k.as_slice() > before.0.as_slice();
    match placement {
        1 if can_precede => entries.insert(0, before),
        2 => entries.push(after),
        3 => {
            if can_precede {
                entries.insert(0, before);
            }
            entries.push(after);
        }
        _ => {}
    }
    entries.sort();
    entries.dedup_by(|a, b| a.0 == b.0);
    let target_key = k;
    let detail = |what: &str, obs: String| J::obj().set("config", cfg.render()).set("key_len", klen).set("value_len", vlen).set("what", what).set("observed", obs);
    let bytes = match gen::build_file(cfg, &entries) {
        Ok(b) => b,
        Err(e) => {
            ctx.violation("api-write-failed", stream, idx, detail("writing an entry with boundary lengths failed", e));
            return;
        }
    };
    let r = guarded(|| -> Result<(Vec<Entry>, Option<Entry>), String> {
        let mut c = Reader::new(Cursor::new(&bytes[..])).and_then(|r| r.into_cursor()).map_err(|e| e.to_string())?;
        // backward first (move_on_prev from a fresh cursor starts at the last entry)
        let mut back = Vec::new();
        while let Some((k, v)) = c.move_on_prev().map_err(|e| e.to_string())? {
            back.push((k.to_vec(), v.to_vec()));
            if back.len() > 5 {
                break;
            }
        }
        back.reverse();
        if back != entries {
            return Err(format!("backward scan yields {} entries with lengths {:?}", back.len(), back.iter().map(|(k, v)| (k.len(), v.len())).collect::<Vec<_>>()));
        }
        c.reset();
        let mut out = Vec::new();
        while let Some((k, v)) = c.move_on_next().map_err(|e| e.to_string())? {
            out.push((k.to_vec(), v.to_vec()));
            if out.len() > 5 {
                break;
            }
        }
        let target = &target_key;
        let g = c.move_on_key_greater_than_or_equal_to(target).map_err(|e| e.to_string())?.map(|(k, v)| (k.to_vec(), v.to_vec()));
        Ok((out, g))
    });
    ctx.count("api_entries_checked", 1);
    ctx.tag("api_length_classes", &format!("key {} bytes / value {} bytes", ref_leb128(klen as u32).len(), ref_leb128(vlen as u32).len()));
    ctx.eval(crate::prng::mix(&[klen as u64, vlen as u64, placement as u64, crate::prng::hash_bytes(1, cfg.render().as_bytes())]), true);
    ctx.tag("api_placements", ["alone", "last", "first", "middle"][placement]);
    match r {
        Ok(Ok((out, g))) => {
            if let Some(d) = crate::cur::first_diff(&entries, &out) {
                ctx.violation("api-entry-altered", stream, idx, detail("entry with boundary lengths reads back altered", d));
            }
            if g.as_ref() != entries.iter().find(|e| e.0 == target_key) {
                ctx.violation("api-entry-altered", stream, idx, detail("seek to the boundary-length key returns something else", format!("{:?}", g.map(|(k, v)| (k.len(), v.len())))));
            }
        }
        Ok(Err(e)) => ctx.violation("api-read-failed", stream, idx, detail("reading back failed", e)),
        Err(p) => ctx.violation("api-read-failed", stream, idx, detail("reading back panicked", p)),
    }
}

pub fn run(ctx: &Ctx) -> i32 {
    codec_part(ctx);
    // API level
    let mut lens: Vec<usize> = vec![0, 1, 127, 128, 16383, 16384, (1 << 21) - 1, 1 << 21];
    let small = lens.clone();
    if ctx.tier == Tier::Thorough {
        lens.push((1 << 28) - 1);
        lens.push(1 << 28);
    }
    let mut cases: Vec<(WCfg, usize, usize)> = Vec::new();
    for &codec in &gen::codecs() {
        for &kl in &small {
            for &vl in &small {
                if kl >= (1 << 21) - 1 && vl >= (1 << 21) - 1 && codec != grenad::CompressionType::None {
                    continue;
                }
                let levels = if kl % 2 == 0 { 2 } else { 0 };
                cases.push((WCfg { codec, level: 1, block_size: Some(1024), interval: Some(2), levels: Some(levels) }, kl, vl));
            }
        }
    }
    // both length prefixes long at once (4+5 and 5+4 bytes of framing): quick runs these two,
    // thorough also 5+5
    let none1 = WCfg { codec: grenad::CompressionType::None, level: 0, block_size: None, interval: None, levels: Some(1) };
    cases.push((none1.clone(), 1 << 21, 1 << 28));
    cases.push((none1.clone(), 1 << 28, 1 << 21));
    if ctx.tier == Tier::Thorough {
        cases.push((none1.clone(), 1 << 28, 1 << 28));
    }
    for &big in lens.iter().filter(|l| **l >= (1 << 28) - 1) {
        cases.push((WCfg { codec: grenad::CompressionType::None, level: 0, block_size: None, interval: None, levels: Some(1) }, big, 3));
        cases.push((WCfg { codec: grenad::CompressionType::None, level: 0, block_size: None, interval: None, levels: Some(1) }, 5, big));
    }
    // the 2^28 cases need ~1.5 GiB each: run them two at a time at most
    let (bigs, smalls): (Vec<_>, Vec<_>) = cases.into_iter().partition(|c| c.1 >= (1 << 28) - 1 || c.2 >= (1 << 28) - 1);
    ctx.par("api", smalls.len() * 4, false, |idx, _| {
        let (cfg, kl, vl) = &smalls[idx as usize / 4];
        api_case(ctx, "api", idx, cfg, *kl, *vl, idx as usize % 4);
    });
    for (i, (cfg, kl, vl)) in bigs.iter().enumerate() {
        if ctx.only.is_none() || ctx.only.as_ref().map(|o| o.0 == "api-big" && o.1 == i as u64).unwrap_or(false) {
            api_case(ctx, "api-big", i as u64, cfg, *kl, *vl, 3);
        }
    }
    let full = ctx.counter("exhaustive_2^32_sweep_done") > 0;
    if ctx.only.is_none() {
        ctx.obligation("encodings of 1, 2, 3, 4 and 5 bytes observed", ctx.tag_count("encoded_length_classes") == 5);
        ctx.obligation("API-level entries at framing boundaries", ctx.counter("api_entries_checked") > 0);
    }
    ctx.finish(
        "exploration",
        if full {
            "length codec through hook H1: ALL 2^32 values are encoded and decoded by the real codec (decode from a buffer with trailing 0xFF and with trailing 0x00): the encoding must be 1..=5 bytes, decode back to the same value and consume exactly the encoded bytes; API level: files holding an entry whose key and/or value length is 0, 1, 127, 128, 16383, 16384, 2^21-1, 2^21 (thorough: 2^28-1, 2^28), for every codec, read back by scan and seek and compared byte for byte. evaluations = value slices + API cases; every case is non-trivial; distinct = slice number / (config, lengths)"
        } else {
            "length codec through hook H1: 5 x 2^16 values around each framing boundary and the top of the domain plus ~2^24 strided values are encoded and decoded by the real codec (decode from a buffer with trailing 0xFF and with trailing 0x00): the encoding must be 1..=5 bytes, decode back to the same value and consume exactly the encoded bytes; API level as in the thorough tier without the 2^28 cases. evaluations = value slices + API cases; every case is non-trivial; distinct = slice number / (config, lengths)"
        },
        &["entries of 2^32-1 bytes are not written through the API (4 GiB times several copies); that end of the domain is covered at codec level only", "comparison with reference LEB128 bytes is informational (the property only demands a lossless 1-5 byte framing; the format conformance is C09's)"],
        J::obj().set("exhaustive", full).set("exhaustive_note", if full { "the codec part enumerates the complete 2^32 domain; the API part is a finite list of boundary lengths" } else { "not exhaustive in this run" }),
    )
}
