//! C04 — range iterators yield exactly the in-range entries, in order, for all bounds.

use std::io::Cursor;
use std::ops::Bound;

use super::files::{for_each_file, Sizes};
use super::query::{check_range, gen_bound, render_bound, Q};
use crate::gen;
use crate::json::J;
use crate::verdict::Ctx;

pub fn run(ctx: &Ctx) -> i32 {
    let sizes = Sizes { random: (4000, 100_000), deep: (600, 15_000), level0_only: false, max_levels: 16, budget: 40_000 };
    let per_file = ctx.tier.pick(45, 200);
    for_each_file(ctx, &sizes, |b, rng| {
        let keys: Vec<&[u8]> = b.entries.iter().map(|(k, _)| k.as_slice()).collect();
        let probes = gen::probes(rng, &keys, 30);
        let q = Q { ctx, stream: b.stream, idx: b.idx, label: &b.label, cfg: b.cfg.render(), entries: &b.entries, sig: "" };
        let mk = || Cursor::new(&b.bytes[..]);
        let bf = b.block_first();
        let mut ranges: Vec<(Bound<Vec<u8>>, Bound<Vec<u8>>)> = Vec::new();
        // all 9 kind pairs at least once per file
        for sk in 0..3 {
            for ek in 0..3 {
                ranges.push((gen_bound(rng, sk, &probes), gen_bound(rng, ek, &probes)));
            }
        }
        // equal bounds, all four bounded kind pairs, on a stored key and on an absent one
        if let Some((k, _)) = b.entries.get(rng.below(b.entries.len().max(1))) {
            for (s, e) in [(1, 1), (1, 2), (2, 1), (2, 2)] {
                let mk_b = |kind: usize, v: Vec<u8>| if kind == 1 { Bound::Included(v) } else { Bound::Excluded(v) };
                ranges.push((mk_b(s, k.clone()), mk_b(e, k.clone())));
                let mut absent = k.clone();
                absent.push(0);
                ranges.push((mk_b(s, absent.clone()), mk_b(e, absent)));
            }
        }
        // ranges starting/ending exactly on block edges
        for w in bf.iter().skip(1).take(3) {
            let first = b.entries[*w].0.clone();
            let prev_last = b.entries[*w - 1].0.clone();
            ranges.push((Bound::Included(first.clone()), Bound::Unbounded));
            ranges.push((Bound::Excluded(prev_last.clone()), Bound::Unbounded));
            ranges.push((Bound::Unbounded, Bound::Excluded(first)));
            ranges.push((Bound::Unbounded, Bound::Included(prev_last)));
            ctx.count("ranges_on_block_edges", 4);
        }
        while ranges.len() < per_file {
            let (s, e) = (rng.below(3), rng.below(3));
            ranges.push((gen_bound(rng, s, &probes), gen_bound(rng, e, &probes)));
        }
        for (s, e) in &ranges {
            check_range(&q, mk, s, e);
        }
        ctx.eval(gen::case_hash(&b.cfg, &b.entries), b.nontrivial());
        ctx.sample(|| {
            J::obj().set("case", b.label.as_str()).set("config", b.cfg.render()).set("n_entries", b.entries.len()).set(
                "ranges",
                J::Arr(ranges.iter().take(4).map(|(s, e)| J::Str(format!("({}, {})", render_bound(s), render_bound(e)))).collect()),
            )
        });
    });
    if ctx.only.is_none() {
        ctx.obligation("all 9 bound-kind pairs", ctx.tag_count("bound_kind_pairs") == 9);
        ctx.obligation("inverted ranges", ctx.counter("inverted_ranges") > 0);
        ctx.obligation("equal bounds Excluded/Excluded", ctx.has_tag("equal_bound_pairs", "EE"));
        ctx.obligation("ranges on block edges", ctx.counter("ranges_on_block_edges") > 0);
        ctx.obligation("multi-level files", ctx.counter("files_with_multi_block_deep_index") > 0);
    }
    ctx.finish(
        "exploration",
        "per generated file, (start, end) bound pairs over {Unbounded, Included, Excluded}^2 with byte strings from the equivalence-class probe set (present/absent keys, equal bounds, inverted, block-edge keys); the forward and the reverse range iterator are drained up to their first None and compared with a filter of the sorted entry list. non-trivial = file with >= 2 data blocks; distinct = distinct (config, entries) hash",
        &["files are produced by the real writer", "nothing is asserted about calls made after an iterator's first None"],
        J::obj(),
    )
}
