//! C17 — no undefined behaviour in buffer management for any entry sizes.
//!
//! This file is the *workload* that is run under the guard allocator, Miri, ASan, TSan and
//! valgrind (the driver merges their verdicts). In every build the outputs are also compared with
//! the reference models, so corruption that a sanitizer misses still shows as wrong data.

use std::collections::BTreeMap;
use std::io::Cursor;

use grenad::{CursorVec, MergerBuilder, Reader};

use super::c06;
use super::c07::judge;
use super::hist::{model_step, HistGen, Layout};
use super::query::open_cursor;
use super::sorter_common::{read_back, run_sorter, Route, SCfg};
use crate::cur::{apply, Entry, Op};
use crate::decoder;
use crate::gen::{self, WCfg};
use crate::io_mon::{MonSink, SplitState};
use crate::json::{hex_opt, J};
use crate::merge_mon::{MergeKind, MonMerge};
use crate::model::{Model, Pos};
use crate::prng::Rng;
use crate::verdict::{guarded, Ctx, Tier};

fn pure_codecs() -> Vec<grenad::CompressionType> {
    // under Miri: no zstd (C FFI); lz4 is ~40x slower there and gets fewer cases
    gen::codecs()
}

/// Sorter buffer scenario: insert sizes steered by hook H3 to hit exact-fit, one-byte-short,
/// oversized and zero-length inserts, then drain by `route` and compare with the model.
fn sorter_buffer_case(ctx: &Ctx, stream: &str, idx: u64, rng: &mut Rng, n_inserts: usize, small: bool) {
    // budgets and capacities deliberately include values that are not multiples of the 16-byte bound
    let budget = *rng.pick(&[256usize, 500, 512, 1000, 1024, 4095, 4096]);
    let allow_realloc = rng.chance(1, 2);
    let initial = if allow_realloc { Some(*rng.pick(&[16usize, 17, 32, 64, 100, 256, budget])) } else if rng.chance(1, 2) { Some(*rng.pick(&[64usize, 100, 250, 256, budget, budget + 1])) } else { None };
    let codec_pool: Vec<grenad::CompressionType> = if small { vec![grenad::CompressionType::None, grenad::CompressionType::Snappy] } else { pure_codecs() };
    let scfg = SCfg {
        budget,
        raw: true,
        initial,
        allow_realloc,
        max_nb_chunks: *rng.pick(&[1usize, 2, 3, 25]),
        stable: rng.chance(2, 3),
        parallel: !small && rng.chance(1, 6),
        codec: Some(*rng.pick(&codec_pool)),
        level: None,
        block_size: Some(1024),
        interval: Some(*rng.pick(&[1usize, 8])),
        levels: Some(rng.range(0, 2) as u8),
        order: rng.next_u64(),
    };
    let kind = *rng.pick(&[MergeKind::Concat, MergeKind::Last, MergeKind::Min, MergeKind::KeyedMinMax]);
    let route = Route::ALL[rng.below(3)];
    let out_cfg = WCfg { codec: grenad::CompressionType::None, level: 0, block_size: Some(1024), interval: None, levels: Some(1) };
    // The insert sizes depend on the observed buffer state, so inserts are generated on the fly
    // by a first pass (recording them), then the recorded list is replayed for the model.
    let mut recorded: Vec<Entry> = Vec::new();
    let mut model: BTreeMap<Vec<u8>, Vec<Vec<u8>>> = BTreeMap::new();
    let universe = *rng.pick(&[2usize, 10, 1000]);
    let mut classes: BTreeMap<&'static str, u64> = BTreeMap::new();
    let res = guarded(|| -> Result<Vec<Entry>, String> {
        let mf = MonMerge::with_plan(kind, None);
        let mf2 = mf.clone();
        let mut sorter = scfg.build(mf, CursorVec);
        // some scenarios start with a run of zero-length ("", "") entries (the buffer then holds
        // bounds but no payload byte) followed by an entry that does not fit
        let empties = if rng.chance(1, 4) { rng.range(1, 12) } else { 0 };
        for seq in 0..n_inserts {
            let (cap, elen, bounds, _chunks) = sorter.verif_buffer_state();
            let remaining = cap - elen - 16 * bounds;
            let want = match rng.below(12) {
                0 | 1 if remaining >= 16 => Some(("exact-fit", remaining - 16)),
                2 | 3 if remaining >= 15 => Some(("one-byte-short", remaining - 15)),
                4 if remaining >= 16 => Some(("leaves-less-than-one-bound", (remaining - 16).saturating_sub(rng.range(1, 15)))),
                5 => Some(("oversized", cap * *rng.pick(&[1usize, 2, 5]) + rng.below(3))),
                6 => Some(("zero-length", 0)),
                _ => None,
            };
            let want = if seq < empties {
                Some(("zero-length", 0))
            } else if seq == empties && empties > 0 {
                Some(("oversized", cap + rng.below(40)))
            } else {
                want
            };
            let (class, total) = want.unwrap_or(("small", rng.range(0, 40)));
            let total = total.min(if small { 1200 } else { 40_000 });
            let mut k = if class == "zero-length" { vec![] } else { (rng.below(universe) as u32).to_be_bytes()[4 - 4.min(total)..].to_vec() };
            k.truncate(total);
            let vlen = total - k.len();
            let v: Vec<u8> = (0..vlen).map(|i| (seq * 7 + i) as u8).collect();
            let before = sorter.verif_buffer_state();
            sorter.insert(&k, &v).map_err(|e| format!("insert: {}", e))?;
            let after = sorter.verif_buffer_state();
            *classes.entry(class).or_insert(0) += 1;
            // what actually happened, seen through H3
            if after.0 > before.0 {
                *classes.entry("observed:reallocation").or_insert(0) += 1;
            }
            if after.2 != before.2 + 1 {
                *classes.entry("observed:spill").or_insert(0) += 1;
            }
            if after.3 < before.3 || (after.3 == before.3 && after.2 != before.2 + 1 && before.3 > 0) {
                *classes.entry("observed:chunk-merge").or_insert(0) += 1;
            }
            if after.0 == before.0 && after.2 == before.2 + 1 && after.0 - after.1 - 16 * after.2 == 0 {
                *classes.entry("observed:buffer-exactly-full").or_insert(0) += 1;
            }
            model.entry(k.clone()).or_default().push(v.clone());
            recorded.push((k, v));
        }
        let limit = recorded.len() + 2;
        match route {
            Route::Stream => {
                let mut it = sorter.into_stream_merger_iter().map_err(|e| format!("into_stream_merger_iter: {}", e))?;
                let mut out = Vec::new();
                while let Some((k, v)) = it.next().map_err(|e| format!("next: {}", e))? {
                    // read every borrowed byte
                    out.push((k.to_vec(), v.to_vec()));
                    if out.len() > limit {
                        return Err("too many entries".into());
                    }
                }
                Ok(out)
            }
            Route::Write => {
                let (sink, shared) = MonSink::new("out", SplitState::full(), None);
                let mut w = out_cfg.builder().build(sink);
                sorter.write_into_stream_writer(&mut w).map_err(|e| format!("write_into_stream_writer: {}", e))?;
                w.finish().map_err(|e| e.to_string())?;
                let bytes = shared.lock().unwrap().bytes.clone();
                read_back(&bytes, limit)
            }
            Route::Cursors => {
                let cursors = sorter.into_reader_cursors().map_err(|e| format!("into_reader_cursors: {}", e))?;
                let mut b = MergerBuilder::new(mf2);
                b.extend(cursors);
                let mut it = b.build().into_stream_merger_iter().map_err(|e| format!("merger: {}", e))?;
                let mut out = Vec::new();
                while let Some((k, v)) = it.next().map_err(|e| format!("next: {}", e))? {
                    out.push((k.to_vec(), v.to_vec()));
                    if out.len() > limit {
                        return Err("too many entries".into());
                    }
                }
                Ok(out)
            }
        }
    });
    for (c, n) in &classes {
        ctx.count(&format!("sorter_inserts:{}", c), *n);
    }
    ctx.count("sorter_buffer_scenarios", 1);
    let detail = |what: &str, obs: String| J::obj().set("part", "sorter-buffer").set("sorter", scfg.render()).set("merge_function", kind.name()).set("route", route.name()).set("n_inserts", recorded.len()).set("insert_sizes", J::Arr(recorded.iter().take(40).map(|(k, v)| J::Int((k.len() + v.len()) as i128)).collect())).set("what", what).set("observed", obs);
    let unstable_concat = !scfg.stable && kind == MergeKind::Concat;
    match res {
        Ok(Ok(out)) => {
            if !unstable_concat {
                if let Err((sig, obs)) = judge(kind, scfg.stable, &model, &out) {
                    ctx.violation(&format!("sorter-output-corrupted:{}", sig), stream, idx, detail("sorter output differs from the model (memory corruption shows as wrong data)", obs));
                }
            } else {
                // unstable + concat of raw bytes: keys only
                let ok: Vec<&Vec<u8>> = out.iter().map(|e| &e.0).collect();
                let mk: Vec<&Vec<u8>> = model.keys().collect();
                if ok != mk {
                    ctx.violation("sorter-output-corrupted:keys", stream, idx, detail("sorter keys differ from the model", format!("{} vs {}", ok.len(), mk.len())));
                }
            }
        }
        Ok(Err(e)) => ctx.violation("sorter-failed", stream, idx, detail("sorter failed", e)),
        Err(p) => ctx.violation("arithmetic-or-bounds-panic", stream, idx, detail("a panic (overflow check, bounds check or assertion) in the buffer management", p)),
    }
    ctx.eval(crate::prng::mix(&[crate::prng::hash_bytes(1, scfg.render().as_bytes()), idx, recorded.len() as u64]), classes.contains_key("observed:spill") || classes.contains_key("observed:reallocation"));
    ctx.sample(|| detail("sample", format!("{:?}", classes)));
}

/// Reader histories where every returned (key, value) is read in full before the next call.
fn reader_borrow_case(ctx: &Ctx, stream: &str, idx: u64, rng: &mut Rng, n_entries: usize, n_ops: usize, small: bool) {
    let mut cfg = gen::gen_cfg(rng, true);
    let pool: Vec<grenad::CompressionType> = if small {
        // lz4 is very slow under Miri: one case in eight
        if ctx.seed % 16 == 5 && idx == 0 {
            // one tiny lz4 case per 16 shards (lz4_flex is ~40x slower under Miri)
            vec![grenad::CompressionType::Lz4]
        } else if rng.chance(1, 8) {
            vec![grenad::CompressionType::Zlib]
        } else {
            vec![grenad::CompressionType::None, grenad::CompressionType::Snappy, grenad::CompressionType::SnappyPre05]
        }
    } else {
        pure_codecs()
    };
    cfg.codec = *rng.pick(&pool);
    cfg.level = gen::gen_level(rng, cfg.codec, true);
    cfg.block_size = Some(1024);
    cfg.levels = Some(*rng.pick(&[0u8, 1, 2, 2, 3]));
    cfg.interval = Some(*rng.pick(&[1usize, 2, 8]));
    let entries = if small && idx % 2 == 1 {
        // long keys: data blocks and the deepest index level are cut during insert
        cfg.levels = Some(2);
        (0..14u32).map(|i| { let mut k = vec![b'k'; 330 + (i as usize % 3) * 20]; k[0..4].copy_from_slice(&i.to_be_bytes()); (k, vec![i as u8; 3]) }).collect()
    } else if small {
        // ~3 KiB of payload: a handful of 1 KiB blocks
        (0..n_entries as u32).map(|i| (i.to_be_bytes().to_vec(), vec![i as u8; 60 + (i as usize * 37) % 90])).collect()
    } else if rng.chance(1, 2) {
        gen::gen_entries(rng, gen::KeyShape::K3, gen::ValShape::Tiny, n_entries / 4 + 4)
    } else {
        gen::gen_entries(rng, gen::KeyShape::K2, gen::ValShape::Medium, n_entries)
    };
    let bytes = match gen::build_file(&cfg, &entries) {
        Ok(b) => b,
        Err(e) => {
            // writing a strictly ascending sequence failed under the memory monitor: a panic here
            // is what a read of freed or uninitialised memory in the writer looks like
            ctx.violation("write-failed-under-memory-monitor", stream, idx, J::obj().set("part", "reader-borrow (file construction)").set("config", cfg.render()).set("n_entries", entries.len()).set("observed", e));
            return;
        }
    };
    let df = if small { None } else { decoder::decode(&bytes, None).ok() };
    let layout = Layout::new(df.as_ref(), entries.len());
    let m = Model::new(&entries);
    let detail = |what: &str, obs: String| J::obj().set("part", "reader-borrow").set("config", cfg.render()).set("n_entries", entries.len()).set("what", what).set("observed", obs);
    ctx.tag("reader_codecs", gen::codec_name(cfg.codec));
    let Ok(mut c) = open_cursor(Cursor::new(&bytes[..])) else { return };
    let mut g = HistGen::new(&entries, &layout);
    let mut pos = Pos::Fresh;
    let mut log: Vec<String> = Vec::new();
    for step in 0..n_ops {
        // now and then: clone the positioned cursor, move the original elsewhere (or drop it),
        // then read the clone's current entry in full: it must still be the entry the clone
        // is positioned on
        if step % 13 == 12 {
            if let Pos::At(i) = pos {
                let clone = c.clone();
                let far = if i < entries.len() / 2 { Op::Last } else { Op::First };
                if step % 2 == 0 {
                    let _ = apply(&mut c, &far);
                    pos = model_step(&m, pos, &far).1;
                } else if let Ok(fresh) = open_cursor(Cursor::new(&bytes[..])) {
                    // drop the original, continue on a new cursor
                    c = fresh;
                    pos = Pos::Fresh;
                }
                let mut clone = clone;
                let got = apply(&mut clone, &Op::Current);
                ctx.count("reader_clone_current_after_original_moved_or_dropped", 1);
                if got != Ok(Some(entries[i].clone())) {
                    ctx.violation("borrowed-slice-content-wrong", stream, idx, detail("current() of a clone differs after its original moved away or was dropped", format!("expected entry #{}, got {}", i, got.map(|e| hex_opt(&e)).unwrap_or_else(|e| e))));
                    return;
                }
            }
        }
        let op = g.next_op(rng, pos);
        let (expect, np) = model_step(&m, pos, &op);
        // `apply` copies key and value in full (every borrowed byte is read) right after the
        // call returns, i.e. at the latest point the signatures allow before the next &mut call
        let got = apply(&mut c, &op);
        ctx.count("reader_ops_with_full_read_of_borrowed_slices", 1);
        log.push(format!("{} -> {}", op.render(), got.as_ref().map(hex_opt).unwrap_or_else(|e| e.clone())));
        match (expect, got) {
            (Some(e), Ok(gt)) => {
                if gt != m.get(e) {
                    ctx.violation("borrowed-slice-content-wrong", stream, idx, detail("bytes read through a returned slice differ from the model", format!("{}; tail: {:?}", log.last().unwrap(), log.iter().rev().take(8).collect::<Vec<_>>())));
                    return;
                }
            }
            (_, Err(e)) if e.starts_with("panic") => {
                ctx.violation("arithmetic-or-bounds-panic", stream, idx, detail("a panic on a read path", e));
                return;
            }
            _ => {}
        }
        pos = np;
    }
    // range and prefix iterators (transmute_entry_to_static paths)
    if !entries.is_empty() {
        // under Miri: short drains (start near the end / the beginning)
        let a = if small { entries[entries.len() - 1 - rng.below(entries.len().min(6))].0.clone() } else { entries[rng.below(entries.len())].0.clone() };
        let rev_to = if small { entries[rng.below(entries.len().min(6))].0.clone() } else { a.clone() };
        let r = guarded(|| -> Result<usize, String> {
            let mut n = 0;
            let mut it = Reader::new(Cursor::new(&bytes[..])).map_err(|e| e.to_string())?.into_range_iter(a.clone()..).map_err(|e| e.to_string())?;
            while let Some((k, v)) = it.next().map_err(|e| e.to_string())? {
                n += k.iter().map(|b| *b as usize).sum::<usize>() + v.iter().map(|b| *b as usize).sum::<usize>();
            }
            let mut it = Reader::new(Cursor::new(&bytes[..])).map_err(|e| e.to_string())?.into_rev_range_iter(..=rev_to.clone()).map_err(|e| e.to_string())?;
            while let Some((k, v)) = it.next().map_err(|e| e.to_string())? {
                n += k.iter().map(|b| *b as usize).sum::<usize>() + v.iter().map(|b| *b as usize).sum::<usize>();
            }
            let p: Vec<u8> = a.iter().take(if small { 4 } else { 2 }).copied().collect();
            let mut it = Reader::new(Cursor::new(&bytes[..])).map_err(|e| e.to_string())?.into_prefix_iter(p.clone()).map_err(|e| e.to_string())?;
            while let Some((k, v)) = it.next().map_err(|e| e.to_string())? {
                n += k.len() + v.len();
            }
            let mut it = Reader::new(Cursor::new(&bytes[..])).map_err(|e| e.to_string())?.into_rev_prefix_iter(p).map_err(|e| e.to_string())?;
            while let Some((k, v)) = it.next().map_err(|e| e.to_string())? {
                n += k.len() + v.len();
            }
            Ok(n)
        });
        match r {
            Ok(Ok(_)) => ctx.count("iterator_drains_with_full_read", 4),
            Ok(Err(e)) => ctx.violation("iterator-failed", stream, idx, detail("iterator failed", e)),
            Err(p) => ctx.violation("arithmetic-or-bounds-panic", stream, idx, detail("a panic on an iterator path", p)),
        }
    }
    ctx.count("reader_borrow_scenarios", 1);
    ctx.eval(crate::prng::mix(&[gen::case_hash(&cfg, &entries), idx]), df.map(|d| d.data_blocks.len() >= 2).unwrap_or(false));
}

fn merger_borrow_case(ctx: &Ctx, stream: &str, idx: u64, rng: &mut Rng) {
    let mut case = c06::gen_case(rng);
    case.sources.truncate(4);
    for (c, e) in case.sources.iter_mut() {
        if !cfg!(feature = "zstd") && c.codec == grenad::CompressionType::Zstd {
            c.codec = grenad::CompressionType::None;
        }
        if cfg!(miri) && c.codec == grenad::CompressionType::Lz4 {
            c.codec = grenad::CompressionType::Snappy;
        }
        e.truncate(if cfg!(miri) { 25 } else { 400 });
    }
    let mut files = Vec::new();
    for (cfg, es) in &case.sources {
        match gen::build_file(cfg, es) {
            Ok(b) => files.push(b),
            Err(_) => return,
        }
    }
    let mut model: BTreeMap<Vec<u8>, Vec<Vec<u8>>> = BTreeMap::new();
    for (_, es) in &case.sources {
        for (k, v) in es {
            model.entry(k.clone()).or_default().push(v.clone());
        }
    }
    let mf = MonMerge::new(case.kind);
    let r = guarded(|| -> Result<Vec<Entry>, String> {
        let mut b = MergerBuilder::new(mf.clone());
        for f in &files {
            b.push(Reader::new(Cursor::new(&f[..])).and_then(|r| r.into_cursor()).map_err(|e| e.to_string())?);
        }
        let mut it = b.build().into_stream_merger_iter().map_err(|e| e.to_string())?;
        let mut out = Vec::new();
        while let Some((k, v)) = it.next().map_err(|e| e.to_string())? {
            out.push((k.to_vec(), v.to_vec()));
        }
        Ok(out)
    });
    ctx.count("merger_borrow_scenarios", 1);
    let detail = |what: &str, obs: String| J::obj().set("part", "merger-borrow").set("n_sources", case.sources.len()).set("merge_function", case.kind.name()).set("what", what).set("observed", obs);
    match r {
        Ok(Ok(out)) => {
            if let Err((sig, obs)) = c06::check_outputs(case.kind, &model, &out, &mf.log.lock().unwrap()) {
                ctx.violation(&format!("merger-output-corrupted:{}", sig), stream, idx, detail("merger output differs from the model", obs));
            }
        }
        Ok(Err(e)) => ctx.violation("merger-failed", stream, idx, detail("merger failed", e)),
        Err(p) => ctx.violation("arithmetic-or-bounds-panic", stream, idx, detail("a panic in the merger", p)),
    }
    ctx.eval(crate::prng::mix(&[idx, 0xC17]), model.values().any(|v| v.len() >= 2));
}

/// Real-size buffer growth: 128 KiB doubling up to the 10 MiB budget through the public API.
fn real_size_case(ctx: &Ctx, idx: u64, rng: &mut Rng) {
    let scfg = SCfg {
        budget: 0,
        raw: false,
        initial: None,
        allow_realloc: idx % 2 == 0,
        max_nb_chunks: 2,
        stable: true,
        parallel: idx % 3 == 0,
        codec: Some(grenad::CompressionType::None),
        level: None,
        block_size: None,
        interval: None,
        levels: None, order: rng.next_u64(),
    };
    let n = 24 * 1024 * 1024 / 600;
    let mut inserts = Vec::with_capacity(n);
    let mut model: BTreeMap<Vec<u8>, Vec<Vec<u8>>> = BTreeMap::new();
    for i in 0..n as u32 {
        let k = (rng.below(50_000) as u32).to_be_bytes().to_vec();
        let v = vec![i as u8; rng.range(0, 1100)];
        model.entry(k.clone()).or_default().push(v.clone());
        inserts.push((k, v));
    }
    let (sink, _s) = MonSink::new("out", SplitState::full(), None);
    let mut max_cap = 0usize;
    let r = run_sorter(&scfg, MonMerge::with_plan(MergeKind::Last, None), CursorVec, &inserts, Route::Stream, &WCfg::plain(), sink, |s, _| {
        max_cap = max_cap.max(s.verif_buffer_state().0);
    });
    ctx.max("real_size_max_buffer_capacity", max_cap as u64);
    ctx.count("real_size_scenarios", 1);
    let detail = |what: &str, obs: String| J::obj().set("part", "real-size").set("sorter", scfg.render()).set("n_inserts", inserts.len()).set("what", what).set("observed", obs);
    match r {
        Ok(out) => {
            if let Err((sig, obs)) = judge(MergeKind::Last, true, &model, &out) {
                ctx.violation(&format!("sorter-output-corrupted:{}", sig), "real-size", idx, detail("sorter output differs from the model", obs));
            }
        }
        Err(f) => ctx.violation("sorter-failed", "real-size", idx, detail("sorter failed", f.render())),
    }
    ctx.eval(crate::prng::mix(&[idx, 0xEA1]), true);
}

#[cfg(feature = "guard-alloc")]
fn guard_report(ctx: &Ctx) -> J {
    use crate::alloc_mon as am;
    use std::sync::atomic::Ordering;
    for v in am::violations() {
        let sig = match v.kind {
            1 => "dealloc-layout-mismatch",
            2 => "write-before-allocation",
            3 => "write-past-allocation",
            4 => "zero-size-allocation",
            _ => "invalid-free",
        };
        ctx.violation(sig, "guard-allocator", 0, J::obj().set("part", "guard allocator").set("observed", am::describe(&v)));
    }
    J::obj()
        .set("allocations", am::TOTAL_ALLOCS.load(Ordering::SeqCst))
        .set("deallocations_with_layout_and_bands_checked", am::BANDS_CHECKED.load(Ordering::SeqCst))
        .set("heap_high_water_bytes", am::HIGH_WATER.load(Ordering::SeqCst))
        .set("violations_recorded", am::violation_count())
}

/// Leak check of the sorter buffer (guard build): net bytes allocated by this thread over a
/// complete sorter lifetime must return to the starting level.
#[cfg(feature = "guard-alloc")]
fn leak_case(ctx: &Ctx, idx: u64, rng: &mut Rng) {
    use crate::alloc_mon as am;
    let seed = rng.next_u64();
    let run = |measure: bool| -> i64 {
        let mut r = Rng::new(seed);
        let scfg = SCfg { budget: 2048, raw: true, initial: Some(64), allow_realloc: true, max_nb_chunks: 2, stable: true, parallel: false, codec: None, level: None, block_size: None, interval: None, levels: None, order: r.next_u64() };
        let _ = measure;
        {
            let route = Route::ALL[r.below(3)];
            let drop_early = r.chance(1, 3);
            let mf = MonMerge::with_plan(MergeKind::Last, None);
            let mut sorter = scfg.build(mf, CursorVec);
            for i in 0..r.range(0, 300) {
                let v = vec![i as u8; r.range(0, 200)];
                let _ = sorter.insert((r.below(40) as u32).to_be_bytes(), &v);
            }
            if !drop_early {
                match route {
                    Route::Stream => {
                        if let Ok(mut it) = sorter.into_stream_merger_iter() {
                            while let Ok(Some(_)) = it.next() {}
                        }
                    }
                    Route::Write => {
                        let mut w = grenad::Writer::memory();
                        let _ = sorter.write_into_stream_writer(&mut w);
                    }
                    Route::Cursors => {
                        let _ = sorter.into_reader_cursors();
                    }
                }
            }
        }
        am::thread_net()
    };
    // A leak shows as retained bytes that grow with every repetition of the same lifetime; memory
    // that is merely retained (thread-local pools, caches, lazily created state) saturates. The
    // identical lifetime is repeated 48 times on this thread and the growth of the retained bytes
    // over runs 12..24 and 24..48 is compared.
    let _ = run(false);
    am::thread_track(true);
    let mut marks = [0i64; 3];
    for r in 1..=48 {
        let _ = run(false);
        match r {
            12 => marks[0] = am::thread_net(),
            24 => marks[1] = am::thread_net(),
            48 => marks[2] = am::thread_net(),
            _ => {}
        }
    }
    am::thread_track(false);
    let (g1, g2) = (marks[1] - marks[0], marks[2] - marks[1]);
    ctx.count("leak_scenarios", 1);
    ctx.max("max_retained_bytes_after_48_identical_sorter_lifetimes", marks[2].max(0) as u64);
    if g1 > 0 && g2 >= 2 * g1 - g1 / 4 {
        ctx.violation(
            "leak",
            "leak",
            idx,
            J::obj().set("part", "leak accounting (guard allocator)").set("observed", format!("bytes retained by this thread keep growing with every identical sorter lifetime: +{} over runs 12..24, +{} over runs 24..48 (retained after 48 runs: {})", g1, g2, marks[2])),
        );
    }
    ctx.eval(crate::prng::mix(&[idx, 0x1EAC]), true);
}

/// Extreme but legal configuration values: sizes and limits near usize::MAX. Allocating that much
/// is impossible, so a deliberate "unable to allocate" / layout panic is fine; what must never
/// happen is an *arithmetic overflow* on the way (or a wrapped size reaching the allocator).
fn extreme_config_case(ctx: &Ctx, idx: u64, rng: &mut Rng) {
    let thresholds = [usize::MAX, usize::MAX - 1, usize::MAX - 7, usize::MAX - 14, usize::MAX - 15, usize::MAX - 16, usize::MAX / 2 + 1, isize::MAX as usize, isize::MAX as usize - 15, 1usize << 62];
    let t = thresholds[idx as usize % thresholds.len()];
    let allow_realloc = (idx / thresholds.len() as u64) % 2 == 0;
    let max_nb_chunks = *rng.pick(&[0usize, 1, 25, usize::MAX, usize::MAX / 2]);
    let block_size = *rng.pick(&[0usize, 8192, usize::MAX, usize::MAX - 1]);
    let describe = format!("dump_threshold({:#x}) allow_realloc({}) max_nb_chunks({:#x}) block_size({:#x})", t, allow_realloc, max_nb_chunks, block_size);
    let r = guarded(|| -> Result<usize, String> {
        let mut b = grenad::SorterBuilder::new(MonMerge::with_plan(MergeKind::Last, None)).chunk_creator(CursorVec);
        b.dump_threshold(t);
        b.allow_realloc(allow_realloc);
        b.max_nb_chunks(max_nb_chunks);
        b.block_size(block_size);
        let mut sorter = b.build();
        for i in 0..50u32 {
            sorter.insert(i.to_be_bytes(), [i as u8; 7]).map_err(|e| e.to_string())?;
        }
        let mut it = sorter.into_stream_merger_iter().map_err(|e| e.to_string())?;
        let mut n = 0;
        while let Some(_) = it.next().map_err(|e| e.to_string())? {
            n += 1;
        }
        Ok(n)
    });
    ctx.count("extreme_configuration_scenarios", 1);
    let detail = |what: &str, obs: String| J::obj().set("part", "extreme configuration values").set("configuration", describe.as_str()).set("what", what).set("observed", obs);
    match r {
        Ok(Ok(n)) => {
            ctx.count("extreme_configurations_that_work", 1);
            if n != 50 {
                ctx.violation("sorter-output-corrupted:keys", "extreme-config", idx, detail("sorter with an extreme configuration lost entries", format!("{} of 50", n)));
            }
        }
        Ok(Err(e)) => ctx.violation("sorter-failed", "extreme-config", idx, detail("sorter reported an error with working components", e)),
        Err(p) => {
            if p.contains("overflow") && !p.contains("capacity overflow") {
                ctx.violation("arithmetic-overflow", "extreme-config", idx, detail("an arithmetic overflow on sizes (overflow-checked build)", p));
            } else if allow_realloc {
                // with reallocation allowed the buffer starts small: nothing impossible is asked for
                ctx.violation("panic-with-a-workable-configuration", "extreme-config", idx, detail("a configuration that needs no impossible allocation panicked", p));
            } else {
                // impossible allocation refused deliberately
                ctx.count("extreme_configurations_refused_by_a_deliberate_panic", 1);
                ctx.tag("deliberate_refusals", &p.chars().take(70).collect::<String>());
            }
        }
    }
    ctx.eval(crate::prng::mix(&[idx, 0xE87]), true);
}

pub fn run(ctx: &Ctx, part: &str) -> i32 {
    let small = part == "miri" || cfg!(miri);
    let heavy = part == "sanitizer"; // asan / tsan / valgrind: medium sizes
    let (n_sorter, n_ins, n_reader, n_entries, n_ops, n_merger) = if small {
        (2usize, 32usize, 2usize, 36usize, 40usize, 1usize)
    } else if heavy {
        (ctx.n(300, 1500), 150, ctx.n(150, 800), 300, 250, ctx.n(100, 500))
    } else {
        (ctx.n(4000, 60_000), 200, ctx.n(1500, 20_000), 400, 300, ctx.n(1500, 20_000))
    };
    ctx.par("sorter-buffer", n_sorter, true, |idx, rng| sorter_buffer_case(ctx, "sorter-buffer", idx, rng, n_ins, small));
    ctx.par("reader-borrow", n_reader, true, |idx, rng| reader_borrow_case(ctx, "reader-borrow", idx, rng, n_entries, n_ops, small));
    ctx.par("merger-borrow", n_merger, true, |idx, rng| merger_borrow_case(ctx, "merger-borrow", idx, rng));
    if !small {
        let n = if heavy { 2 } else { ctx.tier.pick(4, 24) };
        ctx.par("real-size", n, true, |idx, rng| real_size_case(ctx, idx, rng));
        ctx.par("extreme-config", 40, false, |idx, rng| extreme_config_case(ctx, idx, rng));
    }
    let mut extra = J::obj();
    #[cfg(feature = "guard-alloc")]
    {
        ctx.par("leak", ctx.n(300, 3000), true, |idx, rng| leak_case(ctx, idx, rng));
        extra.put("guard_allocator", guard_report(ctx));
    }
    // a Miri process runs only a handful of scenarios: its obligations are checked by the driver
    // on the totals over all processes
    if ctx.only.is_none() && !small {
        ctx.obligation("exact-fit inserts observed (H3)", ctx.counter("sorter_inserts:observed:buffer-exactly-full") > 0);
        ctx.obligation("one-byte-short inserts", ctx.counter("sorter_inserts:one-byte-short") > 0);
        ctx.obligation("oversized inserts", ctx.counter("sorter_inserts:oversized") > 0);
        ctx.obligation("zero-length inserts", ctx.counter("sorter_inserts:zero-length") > 0);
        ctx.obligation("reallocation observed", ctx.counter("sorter_inserts:observed:reallocation") > 0);
        ctx.obligation("spill observed", ctx.counter("sorter_inserts:observed:spill") > 0);
    }
    let _ = Tier::Quick;
    ctx.finish(
        "exploration",
        "workload run under every memory monitor: (1) sorter buffer: insert sizes chosen from the live buffer state (hook H3) to fill it exactly, miss by one byte, leave less than one bound, exceed 1x/2x/5x the buffer, or be zero-length, under both reallocation policies and budgets 256 B..4 KiB (hook H2), followed by spill, chunk merge and one of the three output routes, outputs compared with the model; (2) reader: generated cursor histories and range/prefix iterators where every returned key and value is read in full before the next call, compared with the model; (3) merger iterators likewise; (4) real-size runs (128 KiB buffer doubling to the 10 MiB budget); (5) guard build: per-thread leak accounting over 48 repetitions of complete sorter lifetimes (retained bytes must not keep growing). A violation is a report of the monitor in use (guard allocator: layout mismatch at deallocation, guard-band overwrite, zero-size allocation, invalid free, leak; Miri/ASan/valgrind/TSan: any report, see the per-run entries), a panic from an overflow/bounds check, or output differing from the model. evaluations = scenarios; non-trivial = sorter scenario with a spill or reallocation / file with >= 2 data blocks / merge with a tie; distinct = distinct scenario hash",
        &["sanitizers see only executed paths; red-zone tools miss far out-of-bounds and intra-object accesses; Miri runs are small", "the initial buffer capacity set through hook H2 is >= 16 bytes (one bound)"],
        extra,
    )
}
