//! C12 — any failure of a user-supplied component surfaces as Err from the current call.
//! Fault enumeration: for every scenario, every k-th component call fails, for each error kind.

use std::io::{self, ErrorKind};
use std::ops::Bound;
use std::sync::Arc;

use grenad::{MergerBuilder, Reader};

use super::c06;
use super::sorter_common::{call, classify, classify_plain, gen_inserts_capped, gen_scfg, run_sorter, FailKind, Failure, Route, SCfg};
use crate::cur::Entry;
use crate::gen::{self, WCfg};
use crate::io_mon::{io_carries_marker, MonChunkCreator, MonSink, MonSource, Plan, Split, SplitState, FAULT_KINDS};
use crate::json::J;
use crate::merge_mon::{MergeKind, MonMerge};
use crate::prng::Rng;
use crate::verdict::{Ctx, Tier};

type Scenario<'a> = dyn Fn(Arc<Plan>) -> Result<(), Failure> + 'a;

fn io_fail(stage: &str, e: io::Error) -> Failure {
    Failure { stage: stage.to_string(), kind: FailKind::Io(e) }
}

/// Runs the fault enumeration of one scenario.
fn enumerate(ctx: &Ctx, stream: &str, idx: u64, family: &str, describe: J, scenario: &Scenario, kinds: &[ErrorKind], cap: usize, rng: &mut Rng) {
    let detail = |what: &str, k: u64, kind: Option<ErrorKind>, fired: Option<(String, String, String)>, obs: String| {
        J::obj()
            .set("family", family)
            .set("scenario", describe.clone())
            .set("what", what)
            .set("failing_call_number", k)
            .set("error_kind", kind.map(|k| format!("{:?}", k)))
            .set("failed_component_call", fired.as_ref().map(|(c, o, _)| format!("{}.{}", c, o)))
            .set("public_call_in_progress", fired.as_ref().map(|(_, _, s)| s.clone()))
            .set("observed", obs)
    };
    // 1. fault-free traced run
    let plan = Plan::tracing();
    let r = scenario(plan.clone());
    ctx.count("fault_free_runs", 1);
    if let Err(f) = r {
        ctx.violation("error-without-fault", stream, idx, detail("an error is reported although no component failed", 0, None, None, f.render()));
        return;
    }
    let n = plan.calls();
    let trace = plan.trace.lock().unwrap().clone();
    ctx.max("max_component_calls_in_a_scenario", n);
    for (c, o, s, _) in &trace {
        ctx.tag("component_call_x_public_call", &format!("{}.{} during {}", c, o, s));
    }
    ctx.max("max_component_calls_within_one_public_call", trace.iter().map(|t| t.3 as u64).max().unwrap_or(0));
    // 2. which k to run
    let ks: Vec<u64> = if (n as usize) <= cap {
        (1..=n).collect()
    } else {
        // first and last occurrence of every (component.op, public call, ordinal of the component
        // call within that public call) class, then random: rare deep paths (the 5th read of one
        // move_on_next, the reload of an upper index level) are thereby always selected
        let mut chosen = std::collections::BTreeSet::new();
        let mut first: std::collections::BTreeMap<(String, &str, String, u32), (u64, u64)> = Default::default();
        for (i, t) in trace.iter().enumerate() {
            let e = first.entry((t.0.clone(), t.1, t.2.clone(), t.3.min(40))).or_insert((i as u64 + 1, i as u64 + 1));
            e.1 = i as u64 + 1;
        }
        for (_, (a, b)) in first {
            chosen.insert(a);
            chosen.insert(b);
        }
        while chosen.len() < cap.min(n as usize) {
            chosen.insert(rng.range(1, n as usize) as u64);
        }
        chosen.into_iter().collect()
    };
    let exhaustive = ks.len() as u64 == n;
    if exhaustive {
        ctx.count("scenarios_with_every_k_enumerated", 1);
    } else {
        ctx.count("scenarios_with_sampled_k", 1);
    }
    let mut nontrivial = false;
    // quick runs two error kinds per scenario, rotating through all six over the scenarios
    let kinds: Vec<ErrorKind> = if kinds.len() <= 2 { vec![FAULT_KINDS[(idx as usize * 2) % 6], FAULT_KINDS[(idx as usize * 2 + 1) % 6]] } else { kinds.to_vec() };
    for &k in &ks {
        // ErrorKind::Interrupted is a retry request for read/write (C11) but an ordinary failure
        // for seek, flush and create: it is injected there as an extra kind
        let op = trace.get(k as usize - 1).map(|t| t.1).unwrap_or("");
        let mut these = kinds.clone();
        if matches!(op, "seek" | "flush" | "create") && (k + idx) % 3 == 0 {
            these.push(ErrorKind::Interrupted);
        }
        for &kind in &these {
            ctx.tag("error_kinds_injected", &format!("{:?}", kind));
            let plan = Plan::new(k, kind);
            let r = scenario(plan.clone());
            ctx.count("faulted_runs", 1);
            let fired = plan.fired.lock().unwrap().clone();
            let Some(fired) = fired else {
                // the scenario issued fewer component calls this time: cannot judge
                ctx.count("faulted_runs_fault_not_reached", 1);
                continue;
            };
            nontrivial = true;
            let comp_class = fired.0.split('#').next().unwrap_or("").to_string();
            ctx.tag("faulted_component_ops", &format!("{}.{}", comp_class, fired.1));
            ctx.tag("faulted_public_calls", &fired.2);
            match r {
                Ok(()) => {
                    ctx.violation("failure-swallowed", stream, idx, detail("a component failed but every public call reported success", k, Some(kind), Some(fired), "Ok".into()));
                }
                Err(f) => {
                    let expect_merge = comp_class == "merge";
                    match &f.kind {
                        FailKind::Panic(p) => {
                            ctx.violation("panic-on-component-failure", stream, idx, detail("a component failure made the library panic", k, Some(kind), Some(fired), format!("{}: {}", f.stage, p)));
                        }
                        FailKind::Io(e) => {
                            if expect_merge {
                                ctx.violation("wrong-error-variant", stream, idx, detail("a merge function failure surfaced as an I/O error", k, Some(kind), Some(fired), f.render()));
                            } else if !io_carries_marker(e, k) {
                                ctx.violation("error-does-not-carry-the-failure", stream, idx, detail("the reported I/O error is not the injected one", k, Some(kind), Some(fired), f.render()));
                            } else if f.stage != fired.2 {
                                ctx.violation("error-surfaced-from-a-later-call", stream, idx, detail("the call in progress reported success; the failure surfaced later", k, Some(kind), Some(fired), f.render()));
                            } else {
                                ctx.count("failures_surfaced_as_Io_with_marker", 1);
                            }
                        }
                        FailKind::Merge(m) => {
                            if !expect_merge || m.0 != k {
                                ctx.violation("wrong-error-variant", stream, idx, detail("an I/O component failure surfaced as a merge error (or a different merge error)", k, Some(kind), Some(fired), f.render()));
                            } else if f.stage != fired.2 {
                                ctx.violation("error-surfaced-from-a-later-call", stream, idx, detail("the call in progress reported success; the failure surfaced later", k, Some(kind), Some(fired), f.render()));
                            } else {
                                ctx.count("failures_surfaced_as_Merge_with_marker", 1);
                            }
                        }
                        FailKind::Other(o) => {
                            ctx.violation("wrong-error-variant", stream, idx, detail("a component failure surfaced as an unrelated error", k, Some(kind), Some(fired), format!("{}: {}", f.stage, o)));
                        }
                    }
                }
            }
        }
    }
    ctx.eval(crate::prng::mix(&[crate::prng::hash_bytes(1, describe.to_string().as_bytes()), n]), nontrivial);
    ctx.sample(|| J::obj().set("family", family).set("scenario", describe.clone()).set("component_calls", n).set("k_enumerated", ks.len()).set("error_kinds", J::Arr(kinds.iter().map(|k| J::Str(format!("{:?}", k))).collect())));
}

// ------------------------------------------------------------------ scenario families

fn writer_scenario<'a>(cfg: &'a WCfg, entries: &'a [Entry], use_finish: bool) -> Box<Scenario<'a>> {
    Box::new(move |plan: Arc<Plan>| {
        let (sink, _shared) = MonSink::new("sink", SplitState::full(), Some(plan));
        let mut w = cfg.builder().build(sink);
        for (k, v) in entries {
            call("Writer::insert", || w.insert(k, v).map_err(|e| io_fail("Writer::insert", e)))?;
        }
        if use_finish {
            call("Writer::finish", || w.finish().map_err(|e| io_fail("Writer::finish", e)))
        } else {
            call("Writer::into_inner", || w.into_inner().map(drop).map_err(|e| io_fail("Writer::into_inner", e)))
        }
    })
}

fn reader_scenario<'a>(bytes: Arc<Vec<u8>>, entries: &'a [Entry], seed: u64) -> Box<Scenario<'a>> {
    // keys that open a data block (from the independent decoder): bounds and prefixes aimed at
    // them make iterators step across block edges on their very first move
    let block_firsts: Vec<Vec<u8>> = crate::decoder::decode(&bytes, None).map(|df| df.data_block_first_entry().into_iter().skip(1).filter_map(|i| entries.get(i).map(|e| e.0.clone())).collect()).unwrap_or_default();
    let full_scan = seed % 3 == 0;
    Box::new(move |plan: Arc<Plan>| {
        let mut rng = Rng::new(seed);
        let src = MonSource::new("source", bytes.clone(), SplitState::full(), Some(plan.clone()));
        let reader = call("Reader::new", || Reader::new(src).map_err(|e| classify_plain("Reader::new", e)))?;
        let mut c = call("Reader::into_cursor", || reader.into_cursor().map_err(|e| classify_plain("Reader::into_cursor", e)))?;
        let pick = |rng: &mut Rng| -> Vec<u8> {
            if entries.is_empty() {
                vec![1]
            } else {
                let mut k = entries[rng.below(entries.len())].0.clone();
                if rng.chance(1, 3) {
                    k.push(0);
                }
                k
            }
        };
        macro_rules! op {
            ($name:expr, $e:expr) => {
                call($name, || $e.map(|_| ()).map_err(|e| classify_plain($name, e)))?
            };
        }
        op!("ReaderCursor::move_on_first", c.move_on_first());
        let steps = if full_scan { entries.len() + 1 } else { rng.range(1, 30) };
        for _ in 0..steps {
            op!("ReaderCursor::move_on_next", c.move_on_next());
        }
        let q = pick(&mut rng);
        op!("ReaderCursor::move_on_key_greater_than_or_equal_to", c.move_on_key_greater_than_or_equal_to(&q));
        let q = pick(&mut rng);
        op!("ReaderCursor::move_on_key_lower_than_or_equal_to", c.move_on_key_lower_than_or_equal_to(&q));
        let q = pick(&mut rng);
        op!("ReaderCursor::move_on_key_equal_to", c.move_on_key_equal_to(&q));
        op!("ReaderCursor::move_on_last", c.move_on_last());
        let steps = if full_scan { entries.len() + 1 } else { rng.range(1, 30) };
        for _ in 0..steps {
            op!("ReaderCursor::move_on_prev", c.move_on_prev());
        }
        c.reset();
        op!("ReaderCursor::move_on_prev", c.move_on_prev());
        // iterators, each on its own source
        let (a, b) = (pick(&mut rng), pick(&mut rng));
        let src = MonSource::new("source", bytes.clone(), SplitState::full(), Some(plan.clone()));
        let r = call("Reader::new", || Reader::new(src).map_err(|e| classify_plain("Reader::new", e)))?;
        let mut it = call("Reader::into_range_iter", || r.into_range_iter((Bound::Included(a.clone()), Bound::Excluded(b.clone()))).map_err(|e| classify_plain("Reader::into_range_iter", e)))?;
        for _ in 0..40 {
            let more = call("RangeIter::next", || it.next().map(|o| o.is_some()).map_err(|e| classify_plain("RangeIter::next", e)))?;
            if !more {
                break;
            }
        }
        let src = MonSource::new("source", bytes.clone(), SplitState::full(), Some(plan.clone()));
        let r = call("Reader::new", || Reader::new(src).map_err(|e| classify_plain("Reader::new", e)))?;
        let mut it = call("Reader::into_rev_range_iter", || r.into_rev_range_iter((Bound::Excluded(a.clone()), Bound::<Vec<u8>>::Unbounded)).map_err(|e| classify_plain("Reader::into_rev_range_iter", e)))?;
        for _ in 0..40 {
            let more = call("RevRangeIter::next", || it.next().map(|o| o.is_some()).map_err(|e| classify_plain("RevRangeIter::next", e)))?;
            if !more {
                break;
            }
        }
        // a prefix whose successor is the first key of a data block (reverse iteration must step
        // back over the bound into the previous block), else a short prefix of a stored key
        let prefix: Vec<u8> = match block_firsts.get(rng.below(block_firsts.len().max(1))) {
            Some(k) if !k.is_empty() && k[k.len() - 1] > 0 && rng.chance(2, 3) => {
                let mut p = k.clone();
                let l = p.len() - 1;
                p[l] -= 1;
                p
            }
            _ => a.iter().take(a.len().min(2)).copied().collect(),
        };
        // ranges whose excluded bounds sit on block edges
        if let Some(k) = block_firsts.get(rng.below(block_firsts.len().max(1))) {
            let src = MonSource::new("source", bytes.clone(), SplitState::full(), Some(plan.clone()));
            let r = call("Reader::new", || Reader::new(src).map_err(|e| classify_plain("Reader::new", e)))?;
            let mut it = call("Reader::into_rev_range_iter", || r.into_rev_range_iter((Bound::<Vec<u8>>::Unbounded, Bound::Excluded(k.clone()))).map_err(|e| classify_plain("Reader::into_rev_range_iter", e)))?;
            for _ in 0..3 {
                let more = call("RevRangeIter::next", || it.next().map(|o| o.is_some()).map_err(|e| classify_plain("RevRangeIter::next", e)))?;
                if !more {
                    break;
                }
            }
        }
        let src = MonSource::new("source", bytes.clone(), SplitState::full(), Some(plan.clone()));
        let r = call("Reader::new", || Reader::new(src).map_err(|e| classify_plain("Reader::new", e)))?;
        let mut it = call("Reader::into_prefix_iter", || r.into_prefix_iter(prefix.clone()).map_err(|e| classify_plain("Reader::into_prefix_iter", e)))?;
        for _ in 0..40 {
            let more = call("PrefixIter::next", || it.next().map(|o| o.is_some()).map_err(|e| classify_plain("PrefixIter::next", e)))?;
            if !more {
                break;
            }
        }
        let src = MonSource::new("source", bytes.clone(), SplitState::full(), Some(plan));
        let r = call("Reader::new", || Reader::new(src).map_err(|e| classify_plain("Reader::new", e)))?;
        let mut it = call("Reader::into_rev_prefix_iter", || r.into_rev_prefix_iter(prefix.clone()).map_err(|e| classify_plain("Reader::into_rev_prefix_iter", e)))?;
        for _ in 0..40 {
            let more = call("RevPrefixIter::next", || it.next().map(|o| o.is_some()).map_err(|e| classify_plain("RevPrefixIter::next", e)))?;
            if !more {
                break;
            }
        }
        Ok(())
    })
}

fn merger_scenario<'a>(files: &'a [Arc<Vec<u8>>], kind: MergeKind, write: bool, out_cfg: &'a WCfg) -> Box<Scenario<'a>> {
    Box::new(move |plan: Arc<Plan>| {
        let mf = MonMerge::with_plan(kind, Some(plan.clone()));
        let mut b = MergerBuilder::new(mf);
        for (i, f) in files.iter().enumerate() {
            let src = MonSource::new(&format!("source#{}", i), f.clone(), SplitState::full(), Some(plan.clone()));
            let r = call("Reader::new", || Reader::new(src).map_err(|e| classify_plain("Reader::new", e)))?;
            let c = call("Reader::into_cursor", || r.into_cursor().map_err(|e| classify_plain("Reader::into_cursor", e)))?;
            b.push(c);
        }
        let merger = b.build();
        if write {
            let (sink, _s) = MonSink::new("sink", SplitState::full(), Some(plan));
            let mut w = out_cfg.builder().build(sink);
            call("Merger::write_into_stream_writer", || merger.write_into_stream_writer(&mut w).map_err(|e| classify("Merger::write_into_stream_writer", e)))?;
            call("Writer::finish", || w.finish().map_err(|e| io_fail("Writer::finish", e)))
        } else {
            let mut it = call("Merger::into_stream_merger_iter", || merger.into_stream_merger_iter().map_err(|e| classify_plain("Merger::into_stream_merger_iter", e)))?;
            loop {
                let more = call("MergerIter::next", || it.next().map(|o| o.is_some()).map_err(|e| classify("MergerIter::next", e)))?;
                if !more {
                    return Ok(());
                }
            }
        }
    })
}

fn sorter_scenario<'a>(scfg: &'a SCfg, kind: MergeKind, inserts: &'a [Entry], route: Route, out_cfg: &'a WCfg) -> Box<Scenario<'a>> {
    Box::new(move |plan: Arc<Plan>| {
        let cc = MonChunkCreator::new(Some(plan.clone()), Split::Full, Split::Full, 0);
        let mf = MonMerge::with_plan(kind, Some(plan.clone()));
        let (sink, _s) = MonSink::new("sink", SplitState::full(), Some(plan));
        run_sorter(scfg, mf, cc, inserts, route, out_cfg, sink, |_, _| {}).map(drop)
    })
}

pub fn run(ctx: &Ctx) -> i32 {
    let thorough = ctx.tier == Tier::Thorough;
    let kinds: Vec<ErrorKind> = if thorough { FAULT_KINDS.to_vec() } else { vec![ErrorKind::Other, ErrorKind::UnexpectedEof] };
    let cap = ctx.tier.pick(250, 3000);
    // writers
    let n = ctx.n(60, 400);
    ctx.par("writer", n, true, |idx, rng| {
        let (entries, mut cfg, _) = gen::gen_file_case(rng, 12_000);
        if idx % 2 == 0 {
            cfg.block_size = Some(1024);
            cfg.levels = Some(rng.range(0, 3) as u8);
        }
        let sc = writer_scenario(&cfg, &entries, idx % 2 == 0);
        enumerate(ctx, "writer", idx, "writer", J::obj().set("config", cfg.render()).set("n_entries", entries.len()), &*sc, &kinds, cap, rng);
    });
    // readers: every codec at least once
    let codecs = gen::codecs();
    let n = ctx.n(40, 400).max(codecs.len());
    ctx.par("reader", n, true, |idx, rng| {
        let (entries, mut cfg, _) = gen::gen_file_case(rng, 12_000);
        cfg.codec = codecs[idx as usize % codecs.len()];
        cfg.level = gen::gen_level(rng, cfg.codec, true);
        if idx % 2 == 0 {
            cfg.block_size = Some(1024);
            cfg.levels = Some(rng.range(0, 3) as u8);
        }
        let Ok(bytes) = gen::build_file(&cfg, &entries) else { return };
        ctx.tag("reader_codecs", gen::codec_name(cfg.codec));
        let sc = reader_scenario(Arc::new(bytes), &entries, rng.next_u64());
        enumerate(ctx, "reader", idx, "reader", J::obj().set("config", cfg.render()).set("n_entries", entries.len()), &*sc, &kinds, cap, rng);
    });
    // readers over deep files (index_levels 3-4, several blocks at the deep index levels), full
    // forward and backward scans: every reload of an upper index level is a fault point
    let n = ctx.n(12, 120);
    ctx.par("deep-reader", n, true, |idx, rng| {
        let levels = *rng.pick(&[3u8, 3, 4]);
        let cnt = rng.range(50, 110);
        let (entries, mut cfg) = gen::gen_deep_case(rng, levels, cnt);
        cfg.codec = grenad::CompressionType::None;
        let Ok(bytes) = gen::build_file(&cfg, &entries) else { return };
        let sc = reader_scenario(Arc::new(bytes), &entries, 3 * rng.below(1000) as u64);
        enumerate(ctx, "deep-reader", idx, "reader (deep index, full scans)", J::obj().set("config", cfg.render()).set("n_entries", entries.len()), &*sc, &kinds, cap * 2, rng);
    });
    // mergers
    let n = ctx.n(40, 400);
    ctx.par("merger", n, true, |idx, rng| {
        let case = c06::gen_case(rng);
        let mut files = Vec::new();
        for (cfg, es) in &case.sources {
            match gen::build_file(cfg, es) {
                Ok(b) => files.push(Arc::new(b)),
                Err(_) => return,
            }
        }
        let out_cfg = gen::gen_cfg(rng, true);
        let write = idx % 2 == 0;
        let sc = merger_scenario(&files, case.kind, write, &out_cfg);
        let d = J::obj().set("n_sources", files.len()).set("pattern", case.pattern).set("merge_function", case.kind.name()).set("route", if write { "write_into_stream_writer" } else { "into_stream_merger_iter" });
        enumerate(ctx, "merger", idx, "merger", d, &*sc, &kinds, cap, rng);
    });
    // sorters with spills and chunk merges
    let n = ctx.n(60, 600);
    ctx.par("sorter", n, true, |idx, rng| {
        let mut scfg = gen_scfg(rng);
        scfg.parallel = false;
        scfg.budget = *rng.pick(&[512usize, 1024, 4096]);
        scfg.initial = if scfg.allow_realloc { Some(*rng.pick(&[16usize, 256, scfg.budget])) } else { None };
        scfg.max_nb_chunks = *rng.pick(&[1usize, 2, 3]);
        let kind = *rng.pick(&[MergeKind::Concat, MergeKind::Last, MergeKind::Sum, MergeKind::KeyedMinMax]);
        let uni = *rng.pick(&[3usize, 40]);
        let plan = gen_inserts_capped(rng, rng.clone().range(10, 400), uni, 30, false, None, scfg.budget * 6);
        let out_cfg = gen::gen_cfg(rng, true);
        let route = Route::ALL[idx as usize % 3];
        let sc = sorter_scenario(&scfg, kind, &plan.inserts, route, &out_cfg);
        let d = J::obj().set("sorter", scfg.render()).set("merge_function", kind.name()).set("route", route.name()).set("n_inserts", plan.inserts.len());
        enumerate(ctx, "sorter", idx, "sorter", d, &*sc, &kinds, cap, rng);
    });
    if ctx.only.is_none() {
        for comp in ["sink.write", "sink.flush", "source.read", "source.seek", "chunk.write", "chunk.flush", "chunk.read", "chunk.seek", "creator.create", "merge.merge"] {
            ctx.obligation(&format!("faults injected in {}", comp), ctx.has_tag("faulted_component_ops", comp));
        }
        // which public call a fault surfaces from depends on when the library touches the component
        // (buffering, caching, lazy positioning are all allowed): only the call *families* are
        // required
        for (family, prefixes) in [
            ("writer", &["Writer::"][..]),
            ("reader / cursor / iterators", &["Reader::", "ReaderCursor::", "RangeIter::", "RevRangeIter::", "PrefixIter::", "RevPrefixIter::"][..]),
            ("merger", &["Merger::", "MergerIter::"][..]),
            ("sorter", &["Sorter::"][..]),
        ] {
            ctx.obligation(&format!("faults surfacing in {} calls", family), prefixes.iter().any(|p| ctx.tags_matching("faulted_public_calls", p)));
        }
        for c in gen::codecs() {
            ctx.obligation(&format!("reader faults with codec {}", gen::codec_name(c)), ctx.has_tag("reader_codecs", gen::codec_name(c)));
        }
        ctx.obligation("scenarios with every k enumerated", ctx.counter("scenarios_with_every_k_enumerated") > 0);
    }
    ctx.finish(
        "fault_enumeration",
        "for each scenario (writer inserts+finish over a failing sink; open + cursor operations + range/prefix iterators over a failing source, all codecs; merger streaming / write_into_stream_writer over failing sources, sink and merge function; sorter insert + the three output routes with spills and chunk merges over a failing chunk creator, chunk storage, merge function and sink) a fault-free traced run counts the N calls to user components; then for k in 1..=N (all k when N <= cap, otherwise first/last occurrence of every (component operation, public call) class plus random k up to the cap) and for each error kind exactly the k-th component call fails with a tagged error. Verdict per faulted run: the public call in progress must return Err (never panic, never Ok, not a later call), of variant Io carrying the tag for sink/source/chunk/creator failures and Merge carrying it for merge-function failures; the fault-free run must report no error. evaluations = scenarios; non-trivial = scenario in which at least one injected fault was reached; distinct = distinct (scenario description, N)",
        &["single faults only", "behaviour after the first Err is not examined", "ErrorKind::Interrupted is a retry request, not a failure (C11)", "carrying the failure = tag reachable through get_ref()/source() or its text in Display; ErrorKind equality is not required"],
        J::obj().set("error_kinds", J::Arr(kinds.iter().map(|k| J::Str(format!("{:?}", k))).collect())).set("k_cap_per_scenario", cap),
    )
}
