//! Instrumented global allocator (build `guard`): guard bands with canaries around every
//! allocation, the requested layout stored in the front band and compared at deallocation,
//! freed payloads poisoned, live/high-water accounting. The monitor never allocates: its state is
//! atomics plus a fixed-size violation buffer.

use std::alloc::{GlobalAlloc, Layout, System};
use std::cell::Cell;
use std::sync::atomic::{AtomicI64, AtomicU64, AtomicUsize, Ordering};

pub struct GuardAlloc;

const BACK: usize = 32;
const MAGIC: u64 = 0x6772_656e_6164_4755; // "grenadGU"
const FRONT_CANARY: u8 = 0xA5;
const BACK_CANARY: u8 = 0x5A;
const POISON: u8 = 0xDD;

pub static LIVE_ALLOCS: AtomicI64 = AtomicI64::new(0);
pub static LIVE_BYTES: AtomicI64 = AtomicI64::new(0);
pub static HIGH_WATER: AtomicI64 = AtomicI64::new(0);
pub static TOTAL_ALLOCS: AtomicU64 = AtomicU64::new(0);
pub static TOTAL_DEALLOCS: AtomicU64 = AtomicU64::new(0);
pub static BANDS_CHECKED: AtomicU64 = AtomicU64::new(0);

thread_local! {
    /// Net bytes allocated minus freed by this thread (leak accounting of single-threaded scenarios).
    static THREAD_NET: Cell<i64> = const { Cell::new(0) };
    static THREAD_TRACK: Cell<bool> = const { Cell::new(false) };
}

pub fn thread_net() -> i64 {
    THREAD_NET.with(|c| c.get())
}

pub fn thread_track(on: bool) {
    THREAD_TRACK.with(|c| c.set(on));
    if on {
        THREAD_NET.with(|c| c.set(0));
    }
}

#[derive(Clone, Copy, Debug)]
pub struct AllocViolation {
    pub kind: u8, // 1 layout mismatch, 2 front band, 3 back band, 4 zero-size alloc, 5 bad magic (foreign/double free)
    pub a: usize,
    pub b: usize,
    pub c: usize,
    pub d: usize,
}

const MAXV: usize = 64;
static NV: AtomicUsize = AtomicUsize::new(0);
static mut VIOLS: [AllocViolation; MAXV] = [AllocViolation { kind: 0, a: 0, b: 0, c: 0, d: 0 }; MAXV];

fn record(v: AllocViolation) {
    let i = NV.fetch_add(1, Ordering::SeqCst);
    if i < MAXV {
        unsafe {
            let p = std::ptr::addr_of_mut!(VIOLS) as *mut AllocViolation;
            p.add(i).write(v);
        }
    }
}

pub fn violations() -> Vec<AllocViolation> {
    let n = NV.load(Ordering::SeqCst).min(MAXV);
    let mut out = Vec::new();
    unsafe {
        let p = std::ptr::addr_of!(VIOLS) as *const AllocViolation;
        for i in 0..n {
            out.push(p.add(i).read());
        }
    }
    out
}

pub fn violation_count() -> usize {
    NV.load(Ordering::SeqCst)
}

pub fn describe(v: &AllocViolation) -> String {
    match v.kind {
        1 => format!("deallocation with a mismatched layout: allocated size={} align={}, freed with size={} align={}", v.a, v.b, v.c, v.d),
        2 => format!("front guard band of a {}-byte allocation overwritten at band offset {}", v.a, v.b),
        3 => format!("back guard band of a {}-byte allocation overwritten at band offset {} (write past the end)", v.a, v.b),
        4 => format!("allocation of size 0 requested (align {})", v.b),
        5 => "deallocation of a pointer that is not a live allocation of this allocator (double or foreign free)".to_string(),
        _ => "?".to_string(),
    }
}

#[inline]
fn front_for(align: usize) -> usize {
    // header (magic, size, align) = 24 bytes + canary, rounded up to the alignment
    let a = align.max(16);
    32usize.div_ceil(a) * a
}

unsafe impl GlobalAlloc for GuardAlloc {
    unsafe fn alloc(&self, layout: Layout) -> *mut u8 {
        if layout.size() == 0 {
            record(AllocViolation { kind: 4, a: 0, b: layout.align(), c: 0, d: 0 });
        }
        let align = layout.align().max(16);
        let front = front_for(layout.align());
        let total = front + layout.size() + BACK;
        let real = match Layout::from_size_align(total, align) {
            Ok(l) => l,
            Err(_) => return std::ptr::null_mut(),
        };
        let base = System.alloc(real);
        if base.is_null() {
            return base;
        }
        // front band: canary, then header right before the payload
        std::ptr::write_bytes(base, FRONT_CANARY, front);
        let payload = base.add(front);
        let hdr = payload.sub(24) as *mut u64;
        hdr.write_unaligned(MAGIC);
        hdr.add(1).write_unaligned(layout.size() as u64);
        hdr.add(2).write_unaligned(layout.align() as u64);
        std::ptr::write_bytes(payload.add(layout.size()), BACK_CANARY, BACK);
        // junk-fill the payload: reads of memory the program never initialised then yield 0xCD
        // garbage instead of the zeroes of a fresh page (alloc_zeroed overwrites it afterwards)
        std::ptr::write_bytes(payload, 0xCD, layout.size());
        LIVE_ALLOCS.fetch_add(1, Ordering::Relaxed);
        let live = LIVE_BYTES.fetch_add(layout.size() as i64, Ordering::Relaxed) + layout.size() as i64;
        HIGH_WATER.fetch_max(live, Ordering::Relaxed);
        TOTAL_ALLOCS.fetch_add(1, Ordering::Relaxed);
        let _ = THREAD_TRACK.try_with(|t| {
            if t.get() {
                let _ = THREAD_NET.try_with(|c| c.set(c.get() + layout.size() as i64));
            }
        });
        payload
    }

    unsafe fn dealloc(&self, ptr: *mut u8, layout: Layout) {
        let hdr = ptr.sub(24) as *mut u64;
        let magic = hdr.read_unaligned();
        if magic != MAGIC {
            // not ours (or already freed): report, and do not touch the system allocator
            record(AllocViolation { kind: 5, a: ptr as usize, b: 0, c: 0, d: 0 });
            return;
        }
        let size = hdr.add(1).read_unaligned() as usize;
        let align = hdr.add(2).read_unaligned() as usize;
        if size != layout.size() || align != layout.align() {
            record(AllocViolation { kind: 1, a: size, b: align, c: layout.size(), d: layout.align() });
        }
        let front = front_for(align);
        let base = ptr.sub(front);
        for i in 0..front - 24 {
            if *base.add(i) != FRONT_CANARY {
                record(AllocViolation { kind: 2, a: size, b: i, c: 0, d: 0 });
                break;
            }
        }
        for i in 0..BACK {
            if *ptr.add(size + i) != BACK_CANARY {
                record(AllocViolation { kind: 3, a: size, b: i, c: 0, d: 0 });
                break;
            }
        }
        BANDS_CHECKED.fetch_add(1, Ordering::Relaxed);
        // poison payload and header so that dangling reads see 0xDD and double frees are caught
        std::ptr::write_bytes(ptr, POISON, size);
        hdr.write_unaligned(0);
        LIVE_ALLOCS.fetch_sub(1, Ordering::Relaxed);
        LIVE_BYTES.fetch_sub(size as i64, Ordering::Relaxed);
        TOTAL_DEALLOCS.fetch_add(1, Ordering::Relaxed);
        let _ = THREAD_TRACK.try_with(|t| {
            if t.get() {
                let _ = THREAD_NET.try_with(|c| c.set(c.get() - size as i64));
            }
        });
        let real = Layout::from_size_align_unchecked(front + size + BACK, align.max(16));
        System.dealloc(base, real);
    }
}
