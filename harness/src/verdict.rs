//! Run context: evidence accumulation, violation reporting (with known-findings lookup), replay
//! files, three-valued exit code, and the parallel case runner.

use std::cell::RefCell;
use std::collections::{BTreeMap, BTreeSet, HashSet};
use std::panic::{catch_unwind, AssertUnwindSafe};
use std::path::PathBuf;
use std::sync::atomic::{AtomicU64, AtomicUsize, Ordering};
use std::sync::Mutex;
use std::time::Instant;

use crate::json::J;
use crate::prng::{mix, Rng};

#[derive(Clone, Copy, PartialEq, Eq, Debug)]
pub enum Tier {
    Quick,
    Thorough,
}

impl Tier {
    pub fn name(self) -> &'static str {
        match self {
            Tier::Quick => "quick",
            Tier::Thorough => "thorough",
        }
    }
    /// Picks the quick or the thorough amount.
    pub fn pick(self, quick: usize, thorough: usize) -> usize {
        match self {
            Tier::Quick => quick,
            Tier::Thorough => thorough,
        }
    }
}

pub struct Known {
    pub property: String,
    pub sig: String,
    pub text: String,
}

#[derive(Default)]
struct Inner {
    evaluations: u64,
    distinct: HashSet<u64>,
    counters: BTreeMap<String, u64>,
    maxes: BTreeMap<String, u64>,
    tags: BTreeMap<String, BTreeSet<String>>,
    samples: Vec<J>,
    violations: Vec<J>,
    n_violations: u64,
    viol_sigs: BTreeMap<String, u64>,
    known_hits: BTreeMap<String, u64>,
    harness_errors: Vec<String>,
    unmet: Vec<String>,
    obligations: BTreeMap<String, bool>,
}

pub struct Ctx {
    pub id: String,
    pub tier: Tier,
    pub seed: u64,
    pub build: String,
    pub threads: usize,
    pub out: Option<PathBuf>,
    pub replay_dir: PathBuf,
    pub known: Vec<Known>,
    /// `Some((stream, idx))`: replay mode, run only that case.
    pub only: Option<(String, u64)>,
    /// Scales the size of the random part of workloads (percent, default 100).
    pub scale: u64,
    pub start: Instant,
    inner: Mutex<Inner>,
    replay_counter: AtomicU64,
}

thread_local! {
    static QUIET: RefCell<u32> = const { RefCell::new(0) };
    static LAST_PANIC: RefCell<Option<String>> = const { RefCell::new(None) };
}

pub fn install_panic_hook() {
    let default = std::panic::take_hook();
    std::panic::set_hook(Box::new(move |info| {
        let quiet = QUIET.with(|q| *q.borrow() > 0);
        let msg = if let Some(s) = info.payload().downcast_ref::<&str>() {
            s.to_string()
        } else if let Some(s) = info.payload().downcast_ref::<String>() {
            s.clone()
        } else {
            "<non-string panic>".to_string()
        };
        let loc = info.location().map(|l| format!("{}:{}", l.file(), l.line())).unwrap_or_default();
        LAST_PANIC.with(|p| *p.borrow_mut() = Some(format!("{} @ {}", msg, loc)));
        if !quiet {
            default(info);
        }
    }));
}

/// Runs `f`, converting a panic into `Err(message @ location)`. Panics are silenced.
pub fn guarded<T>(f: impl FnOnce() -> T) -> Result<T, String> {
    QUIET.with(|q| *q.borrow_mut() += 1);
    let r = catch_unwind(AssertUnwindSafe(f));
    QUIET.with(|q| *q.borrow_mut() -= 1);
    match r {
        Ok(v) => Ok(v),
        Err(_) => Err(LAST_PANIC.with(|p| p.borrow_mut().take()).unwrap_or_else(|| "panic".into())),
    }
}

impl Ctx {
    pub fn new(id: &str, tier: Tier, seed: u64) -> Ctx {
        let threads = std::env::var("VERIF_THREADS").ok().and_then(|s| s.parse().ok()).unwrap_or_else(|| {
            std::thread::available_parallelism().map(|n| n.get()).unwrap_or(4)
        });
        Ctx {
            id: id.to_string(),
            tier,
            seed,
            build: "unknown".into(),
            threads,
            out: None,
            replay_dir: PathBuf::from("replays"),
            known: Vec::new(),
            only: None,
            scale: 100,
            start: Instant::now(),
            inner: Mutex::new(Inner::default()),
            replay_counter: AtomicU64::new(0),
        }
    }

    pub fn load_known(&mut self, path: &str) {
        let Ok(text) = std::fs::read_to_string(path) else { return };
        for line in text.lines() {
            let line = line.trim();
            if let Some(rest) = line.strip_prefix("known:") {
                let mut property = String::new();
                let mut sig = String::new();
                let mut words = Vec::new();
                for w in rest.split_whitespace() {
                    if let Some(p) = w.strip_prefix("property=") {
                        property = p.to_string();
                    } else if let Some(s) = w.strip_prefix("sig=") {
                        sig = s.to_string();
                    } else {
                        words.push(w);
                    }
                }
                if !property.is_empty() && !sig.is_empty() {
                    self.known.push(Known { property, sig, text: words.join(" ") });
                }
            }
        }
    }

    /// Number of random cases: `quick`/`thorough` scaled by VERIF_SCALE.
    pub fn n(&self, quick: usize, thorough: usize) -> usize {
        ((self.tier.pick(quick, thorough) as u64 * self.scale) / 100).max(1) as usize
    }

    pub fn eval(&self, case_hash: u64, nontrivial: bool) {
        let mut g = self.inner.lock().unwrap();
        g.evaluations += 1;
        if nontrivial {
            g.distinct.insert(case_hash);
        }
    }

    pub fn count(&self, key: &str, n: u64) {
        let mut g = self.inner.lock().unwrap();
        *g.counters.entry(key.to_string()).or_insert(0) += n;
    }

    pub fn max(&self, key: &str, v: u64) {
        let mut g = self.inner.lock().unwrap();
        let e = g.maxes.entry(key.to_string()).or_insert(0);
        if v > *e {
            *e = v;
        }
    }

    pub fn tag(&self, key: &str, item: &str) {
        let mut g = self.inner.lock().unwrap();
        let set = g.tags.entry(key.to_string()).or_default();
        if set.len() < 400 {
            set.insert(item.to_string());
        }
    }

    pub fn counter(&self, key: &str) -> u64 {
        *self.inner.lock().unwrap().counters.get(key).unwrap_or(&0)
    }

    pub fn inner_max(&self, key: &str) -> u64 {
        *self.inner.lock().unwrap().maxes.get(key).unwrap_or(&0)
    }

    pub fn has_tag(&self, key: &str, item: &str) -> bool {
        self.inner.lock().unwrap().tags.get(key).map(|s| s.contains(item)).unwrap_or(false)
    }

    pub fn tags_matching(&self, key: &str, needle: &str) -> bool {
        self.inner.lock().unwrap().tags.get(key).map(|s| s.iter().any(|t| t.contains(needle))).unwrap_or(false)
    }

    pub fn tag_count(&self, key: &str) -> usize {
        self.inner.lock().unwrap().tags.get(key).map(|s| s.len()).unwrap_or(0)
    }

    pub fn sample(&self, f: impl FnOnce() -> J) {
        let mut g = self.inner.lock().unwrap();
        if g.samples.len() < 4 {
            let s = f();
            g.samples.push(s);
        }
    }

    pub fn harness_error(&self, msg: String) {
        let mut g = self.inner.lock().unwrap();
        if g.harness_errors.len() < 20 {
            g.harness_errors.push(msg);
        }
    }

    /// Declares a coverage obligation; an unmet one makes the run inconclusive.
    pub fn obligation(&self, name: &str, met: bool) {
        if self.only.is_some() {
            return;
        }
        let mut g = self.inner.lock().unwrap();
        g.obligations.insert(name.to_string(), met);
        if !met {
            g.unmet.push(name.to_string());
        }
    }

    pub fn n_violations(&self) -> u64 {
        self.inner.lock().unwrap().n_violations
    }

    /// Reports a violation. `sig` is the signature class looked up in KNOWN_FINDINGS.txt.
    pub fn violation(&self, sig: &str, stream: &str, idx: u64, detail: J) {
        if let Some(k) = self.known.iter().find(|k| k.property == self.id && k.sig == sig) {
            let mut g = self.inner.lock().unwrap();
            let e = g.known_hits.entry(sig.to_string()).or_insert(0);
            *e += 1;
            if *e == 1 {
                println!("KNOWN-FINDING: property={} sig={} {}", self.id, sig, k.text);
            }
            return;
        }
        let mut g = self.inner.lock().unwrap();
        g.n_violations += 1;
        let per_sig = {
            let e = g.viol_sigs.entry(sig.to_string()).or_insert(0);
            *e += 1;
            *e
        };
        if per_sig > 2 || g.violations.len() >= 12 {
            return;
        }
        let n = self.replay_counter.fetch_add(1, Ordering::SeqCst);
        let replay = J::obj()
            .set("check", self.id.as_str())
            .set("tier", self.tier.name())
            .set("seed", self.seed)
            .set("build", self.build.as_str())
            .set("stream", stream)
            .set("case", idx)
            .set("signature", sig)
            .set("detail", detail.clone());
        let _ = std::fs::create_dir_all(&self.replay_dir);
        let path = self.replay_dir.join(format!("{}-{}-{}-{}.json", self.id, self.build, self.seed, n));
        let _ = std::fs::write(&path, replay.to_string());
        println!("VIOLATION property={} replay={}", self.id, path.display());
        println!("  signature={} stream={} case={} detail={}", sig, stream, idx, one_line(&detail));
        g.violations.push(J::obj().set("signature", sig).set("stream", stream).set("case", idx).set("detail", detail));
    }

    /// Runs `n` cases of `stream` over the worker threads. The case RNG depends on the seed only
    /// when `seeded` is true (structured streams are seed independent).
    pub fn par<F>(&self, stream: &str, n: usize, seeded: bool, f: F)
    where
        F: Fn(u64, &mut Rng) + Sync,
    {
        let t0 = Instant::now();
        let next = AtomicUsize::new(0);
        let stream_tag = crate::prng::hash_bytes(7, stream.as_bytes());
        let id_tag = crate::prng::hash_bytes(11, self.id.as_bytes());
        let run_one = |idx: u64| {
            let seed = if seeded { self.seed } else { 0 };
            let mut rng = Rng::new(mix(&[seed, id_tag, stream_tag, idx]));
            let r = catch_unwind(AssertUnwindSafe(|| f(idx, &mut rng)));
            if r.is_err() {
                let msg = LAST_PANIC.with(|p| p.borrow_mut().take()).unwrap_or_default();
                self.harness_error(format!("case {}:{} panicked outside a guarded call: {}", stream, idx, msg));
            }
        };
        if let Some((s, idx)) = &self.only {
            if s == stream && (*idx as usize) < n {
                run_one(*idx);
            }
            return;
        }
        let threads = self.threads.min(n.max(1));
        if threads <= 1 {
            for i in 0..n {
                run_one(i as u64);
            }
            self.max(&format!("stream_wall_ms:{}", stream), t0.elapsed().as_millis() as u64);
            return;
        }
        // per-worker "current case and when it started", watched by a stall monitor: a case that
        // does not return is reported (STALL lines); if the run has already found a violation the
        // evidence is written and the process exits with 1 instead of waiting for the watchdog
        let slots: Vec<Mutex<Option<(u64, Instant)>>> = (0..threads).map(|_| Mutex::new(None)).collect();
        let done = std::sync::atomic::AtomicBool::new(false);
        let stall_limit = std::env::var("VERIF_STALL_S").ok().and_then(|s| s.parse().ok()).unwrap_or(if self.tier == Tier::Quick { 300u64 } else { 1800 });
        std::thread::scope(|sc| {
            for w in 0..threads {
                let slots = &slots;
                let next = &next;
                let run_one = &run_one;
                sc.spawn(move || loop {
                    let i = next.fetch_add(1, Ordering::SeqCst);
                    if i >= n {
                        *slots[w].lock().unwrap() = None;
                        break;
                    }
                    *slots[w].lock().unwrap() = Some((i as u64, Instant::now()));
                    run_one(i as u64);
                });
            }
            let slots = &slots;
            let done = &done;
            sc.spawn(move || {
                let mut warned: HashSet<u64> = HashSet::new();
                while !done.load(Ordering::SeqCst) {
                    std::thread::sleep(std::time::Duration::from_millis(500));
                    let mut all_idle = true;
                    for s in slots.iter() {
                        if let Some((idx, t0)) = *s.lock().unwrap() {
                            all_idle = false;
                            let el = t0.elapsed().as_secs();
                            if el >= 60 && warned.insert(idx) {
                                println!("STALL {} case {}:{} has been running for {} s", self.id, stream, idx, el);
                            }
                            if el >= stall_limit && self.n_violations() > 0 {
                                println!("STALL {} case {}:{} did not return within {} s; violations were already reported: finishing now", self.id, stream, idx, el);
                                let code = self.finish_partial();
                                std::process::exit(code);
                            }
                        }
                    }
                    if all_idle {
                        break;
                    }
                }
            });
        });
        done.store(true, Ordering::SeqCst);
        self.max(&format!("stream_wall_ms:{}", stream), t0.elapsed().as_millis() as u64);
    }

    /// Used when a case hangs after violations were already reported.
    pub fn finish_partial(&self) -> i32 {
        self.finish("exploration", "run cut short: a case did not return after violations had already been reported", &["partial run"], J::obj().set("partial", true))
    }

    /// Writes the evidence file and returns the process exit code (0 held, 1 violated,
    /// 2 inconclusive).
    pub fn finish(&self, level: &str, rule: &str, assumptions: &[&str], extra: J) -> i32 {
        let g = self.inner.lock().unwrap();
        let mut cov = J::obj()
            .set("evaluations", g.evaluations)
            .set("distinct_nontrivial", g.distinct.len())
            .set("rule", rule)
            .set("samples", J::Arr(g.samples.clone()))
            .set("build", self.build.as_str());
        let mut counters = J::obj();
        for (k, v) in &g.counters {
            counters.put(k, *v);
        }
        cov.put("observed_counts", counters);
        let mut maxes = J::obj();
        for (k, v) in &g.maxes {
            maxes.put(k, *v);
        }
        cov.put("observed_max", maxes);
        let mut tags = J::obj();
        for (k, v) in &g.tags {
            tags.put(k, J::Arr(v.iter().map(|s| J::Str(s.clone())).collect()));
        }
        cov.put("observed_classes", tags);
        let mut obl = J::obj();
        for (k, v) in &g.obligations {
            obl.put(k, *v);
        }
        cov.put("coverage_obligations", obl);
        if let J::Obj(m) = extra {
            for (k, v) in m {
                cov.put(&k, v);
            }
        }
        if !g.violations.is_empty() {
            cov.put("violation_witnesses", J::Arr(g.violations.clone()));
        }
        if !g.known_hits.is_empty() {
            let mut kh = J::obj();
            for (k, v) in &g.known_hits {
                kh.put(k, *v);
            }
            cov.put("known_finding_hits", kh);
        }
        if !g.harness_errors.is_empty() {
            cov.put("harness_errors", J::Arr(g.harness_errors.iter().map(|s| J::Str(s.clone())).collect()));
        }
        let wall = self.start.elapsed().as_secs_f64();
        let verdict = if g.n_violations > 0 {
            "violated"
        } else if !g.harness_errors.is_empty() || !g.unmet.is_empty() || g.evaluations == 0 {
            "inconclusive"
        } else {
            "held"
        };
        cov.put("verdict", verdict);
        let ev = J::obj()
            .set("property_id", self.id.as_str())
            .set("tier", self.tier.name())
            .set("seed", self.seed)
            .set("level", level)
            .set("coverage", cov)
            .set("assumptions", J::Arr(assumptions.iter().map(|s| J::Str(s.to_string())).collect()))
            .set("wall_s", wall)
            .set("violations", g.n_violations);
        if let Some(out) = &self.out {
            if let Some(dir) = out.parent() {
                let _ = std::fs::create_dir_all(dir);
            }
            if let Err(e) = std::fs::write(out, ev.to_string()) {
                println!("INCONCLUSIVE property={} cannot write evidence: {}", self.id, e);
                return 2;
            }
        }
        println!(
            "[{} {} seed={} build={}] verdict={} evaluations={} distinct_nontrivial={} violations={} wall={:.1}s",
            self.id,
            self.tier.name(),
            self.seed,
            self.build,
            verdict,
            g.evaluations,
            g.distinct.len(),
            g.n_violations,
            wall
        );
        match verdict {
            "violated" => 1,
            "held" => 0,
            _ => {
                for e in &g.harness_errors {
                    println!("INCONCLUSIVE property={} harness error: {}", self.id, e);
                }
                for u in &g.unmet {
                    println!("INCONCLUSIVE property={} coverage obligation not met: {}", self.id, u);
                }
                if g.evaluations == 0 {
                    println!("INCONCLUSIVE property={} nothing was evaluated", self.id);
                }
                2
            }
        }
    }
}

fn one_line(j: &J) -> String {
    let s = j.to_string();
    let s: String = s.split_whitespace().collect::<Vec<_>>().join(" ");
    if s.chars().count() > 600 {
        format!("{}...", s.chars().take(600).collect::<String>())
    } else {
        s
    }
}
