//! Reference model: a sorted list of entries with binary search. No grenad code.

use std::ops::Bound;

pub type Entry = (Vec<u8>, Vec<u8>);

#[derive(Clone, Copy, Debug, PartialEq, Eq)]
pub enum Pos {
    Fresh,
    At(usize),
    Unspecified,
}

pub struct Model<'a> {
    pub e: &'a [Entry],
}

impl<'a> Model<'a> {
    pub fn new(e: &'a [Entry]) -> Model<'a> {
        Model { e }
    }
    pub fn len(&self) -> usize {
        self.e.len()
    }
    /// Index of the smallest key >= q.
    pub fn ge(&self, q: &[u8]) -> Option<usize> {
        let i = self.e.partition_point(|(k, _)| k.as_slice() < q);
        if i < self.e.len() {
            Some(i)
        } else {
            None
        }
    }
    /// Index of the largest key <= q.
    pub fn le(&self, q: &[u8]) -> Option<usize> {
        let i = self.e.partition_point(|(k, _)| k.as_slice() <= q);
        i.checked_sub(1)
    }
    pub fn eq(&self, q: &[u8]) -> Option<usize> {
        self.e.binary_search_by(|(k, _)| k.as_slice().cmp(q)).ok()
    }
    pub fn get(&self, i: Option<usize>) -> Option<Entry> {
        i.map(|i| self.e[i].clone())
    }
    pub fn in_range(&self, start: &Bound<Vec<u8>>, end: &Bound<Vec<u8>>) -> Vec<usize> {
        (0..self.e.len())
            .filter(|&i| {
                let k = &self.e[i].0;
                let a = match start {
                    Bound::Unbounded => true,
                    Bound::Included(s) => k >= s,
                    Bound::Excluded(s) => k > s,
                };
                let b = match end {
                    Bound::Unbounded => true,
                    Bound::Included(s) => k <= s,
                    Bound::Excluded(s) => k < s,
                };
                a && b
            })
            .collect()
    }
    pub fn with_prefix(&self, p: &[u8]) -> Vec<usize> {
        (0..self.e.len()).filter(|&i| self.e[i].0.starts_with(p)).collect()
    }
}
