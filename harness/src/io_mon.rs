//! Boundary instrumentation: monitored sinks, sources, chunk storage and chunk creators, with
//! per-call split/interrupt schedules and single-fault injection (the "plan").

use std::collections::BTreeMap;
use std::fmt;
use std::io::{self, ErrorKind, Read, Seek, SeekFrom, Write};
use std::sync::atomic::{AtomicU64, Ordering};
use std::sync::{Arc, Mutex};

use crate::prng::Rng;

// ------------------------------------------------------------------ tagged failures

#[derive(Debug)]
pub struct Marker(pub u64);

impl fmt::Display for Marker {
    fn fmt(&self, f: &mut fmt::Formatter<'_>) -> fmt::Result {
        write!(f, "verif-injected-failure-{}", self.0)
    }
}
impl std::error::Error for Marker {}

pub fn marker_text(id: u64) -> String {
    format!("verif-injected-failure-{}", id)
}

/// Is the injected failure `id` reachable from this io error (payload, source chain or text)?
pub fn io_carries_marker(e: &io::Error, id: u64) -> bool {
    if let Some(inner) = e.get_ref() {
        let mut cur: Option<&(dyn std::error::Error + 'static)> = Some(inner);
        let mut depth = 0;
        while let Some(c) = cur {
            if let Some(m) = c.downcast_ref::<Marker>() {
                if m.0 == id {
                    return true;
                }
            }
            if let Some(ioe) = c.downcast_ref::<io::Error>() {
                if io_carries_marker(ioe, id) {
                    return true;
                }
            }
            cur = c.source();
            depth += 1;
            if depth > 16 {
                break;
            }
        }
    }
    e.to_string().contains(&marker_text(id))
}

pub const FAULT_KINDS: [ErrorKind; 6] = [
    ErrorKind::Other,
    ErrorKind::BrokenPipe,
    ErrorKind::PermissionDenied,
    ErrorKind::UnexpectedEof,
    ErrorKind::WouldBlock,
    ErrorKind::TimedOut,
];

thread_local! {
    /// The public call in progress on this thread (set by `sorter_common::call`).
    pub static STAGE: std::cell::RefCell<String> = const { std::cell::RefCell::new(String::new()) };
    /// Number of component calls issued since the current public call started.
    pub static CALLS_IN_STAGE: std::cell::Cell<u32> = const { std::cell::Cell::new(0) };
}

pub fn set_stage(s: &str) {
    STAGE.with(|st| {
        let mut st = st.borrow_mut();
        st.clear();
        st.push_str(s);
    });
    CALLS_IN_STAGE.with(|c| c.set(0));
}

pub fn current_stage() -> String {
    STAGE.with(|st| st.borrow().clone())
}

/// Shared fault plan of one scenario: counts every call to a user component and fails exactly
/// the `fail_at`-th one (1-based; 0 = never).
pub struct Plan {
    calls: AtomicU64,
    pub fail_at: u64,
    pub kind: ErrorKind,
    /// (component, operation, public call in progress) of the injected failure
    pub fired: Mutex<Option<(String, String, String)>>,
    pub per_op: Mutex<BTreeMap<String, u64>>,
    /// (component class, operation, public call in progress, ordinal of this component call
    /// within that public call)
    pub trace: Mutex<Vec<(String, &'static str, String, u32)>>,
    pub keep_trace: bool,
}

impl Plan {
    pub fn new(fail_at: u64, kind: ErrorKind) -> Arc<Plan> {
        Arc::new(Plan {
            calls: AtomicU64::new(0),
            fail_at,
            kind,
            fired: Mutex::new(None),
            per_op: Mutex::new(BTreeMap::new()),
            trace: Mutex::new(Vec::new()),
            keep_trace: false,
        })
    }
    pub fn tracing() -> Arc<Plan> {
        Arc::new(Plan {
            calls: AtomicU64::new(0),
            fail_at: 0,
            kind: ErrorKind::Other,
            fired: Mutex::new(None),
            per_op: Mutex::new(BTreeMap::new()),
            trace: Mutex::new(Vec::new()),
            keep_trace: true,
        })
    }
    pub fn calls(&self) -> u64 {
        self.calls.load(Ordering::SeqCst)
    }
    /// Counts one component call; `true` when this is the call that must fail.
    pub fn tick(&self, comp: &str, op: &'static str) -> bool {
        let k = self.calls.fetch_add(1, Ordering::SeqCst) + 1;
        let ordinal = CALLS_IN_STAGE.with(|c| {
            c.set(c.get() + 1);
            c.get()
        });
        if self.keep_trace {
            *self.per_op.lock().unwrap().entry(format!("{}.{}", comp_class(comp), op)).or_insert(0) += 1;
            self.trace.lock().unwrap().push((comp_class(comp).to_string(), op, current_stage(), ordinal));
        }
        if self.fail_at != 0 && k == self.fail_at {
            *self.fired.lock().unwrap() = Some((comp.to_string(), op.to_string(), current_stage()));
            true
        } else {
            false
        }
    }
    pub fn io_err(&self) -> io::Error {
        io::Error::new(self.kind, Marker(self.fail_at))
    }
}

fn comp_class(comp: &str) -> &str {
    comp.split('#').next().unwrap_or(comp)
}

// ------------------------------------------------------------------ split / interrupt schedules

#[derive(Clone, Debug, PartialEq, Eq)]
pub enum Split {
    Full,
    One,
    Rand,
    IntrEvery(u32),
    Chaos,
}

impl Split {
    pub fn name(&self) -> String {
        match self {
            Split::Full => "full".into(),
            Split::One => "one-byte".into(),
            Split::Rand => "random-short".into(),
            Split::IntrEvery(n) => format!("interrupt-every-{}", n),
            Split::Chaos => "chaos(interrupt p=0.3 + short)".into(),
        }
    }
    pub fn all() -> Vec<Split> {
        vec![Split::Full, Split::One, Split::Rand, Split::IntrEvery(2), Split::IntrEvery(3), Split::IntrEvery(5), Split::IntrEvery(7), Split::Chaos]
    }
    pub fn has_interrupts(&self) -> bool {
        matches!(self, Split::IntrEvery(_) | Split::Chaos)
    }
}

#[derive(Clone)]
pub struct SplitState {
    pub policy: Split,
    rng: Rng,
    n: u64,
    run: u32,
    pub interrupts: u64,
    pub shorts: u64,
}

pub enum Decision {
    Accept(usize),
    Interrupt,
}

impl SplitState {
    pub fn new(policy: Split, seed: u64) -> SplitState {
        SplitState { policy, rng: Rng::new(seed), n: 0, run: 0, interrupts: 0, shorts: 0 }
    }
    pub fn full() -> SplitState {
        SplitState::new(Split::Full, 0)
    }
    /// Decides how many of `len` (> 0) bytes this call handles, in `1..=len`, or an interruption.
    pub fn decide(&mut self, len: usize) -> Decision {
        self.n += 1;
        let d = match self.policy {
            Split::Full => Decision::Accept(len),
            Split::One => Decision::Accept(1),
            Split::Rand => Decision::Accept(self.short(len)),
            Split::IntrEvery(k) => {
                if self.n % k as u64 == 0 {
                    Decision::Interrupt
                } else {
                    Decision::Accept(len)
                }
            }
            Split::Chaos => {
                if self.run < 3 && self.rng.chance(3, 10) {
                    Decision::Interrupt
                } else {
                    Decision::Accept(self.short(len))
                }
            }
        };
        match &d {
            Decision::Interrupt => {
                self.run += 1;
                self.interrupts += 1;
            }
            Decision::Accept(n) => {
                self.run = 0;
                if *n < len {
                    self.shorts += 1;
                }
            }
        }
        d
    }
    fn short(&mut self, len: usize) -> usize {
        match self.rng.below(6) {
            0 => 1,
            1 => len,
            2 => (len - 1).max(1),
            3 => self.rng.range(1, len.min(9)),
            _ => self.rng.range(1, len),
        }
    }
}

fn interrupted() -> io::Error {
    io::Error::new(ErrorKind::Interrupted, "verif: interrupted, please retry")
}

// ------------------------------------------------------------------ sink

#[derive(Default)]
pub struct SinkShared {
    pub bytes: Vec<u8>,
    pub writes: u64,
    pub flushes: u64,
    pub partial: u64,
    pub interrupts: u64,
    pub vectored_writes: u64,
    /// Length of `bytes` after each write call (for crash-point enumeration).
    pub cuts: Vec<usize>,
    pub keep_cuts: bool,
    /// `Some(n)`: only the first `n` bytes are durable (the sink commits on flush)
    pub commit_on_flush: bool,
    pub committed: usize,
}

pub struct MonSink {
    pub shared: Arc<Mutex<SinkShared>>,
    split: SplitState,
    plan: Option<Arc<Plan>>,
    name: String,
}

impl MonSink {
    pub fn new(name: &str, split: SplitState, plan: Option<Arc<Plan>>) -> (MonSink, Arc<Mutex<SinkShared>>) {
        let shared = Arc::new(Mutex::new(SinkShared::default()));
        (MonSink { shared: shared.clone(), split, plan, name: name.to_string() }, shared)
    }
}

impl Write for MonSink {
    fn write(&mut self, buf: &[u8]) -> io::Result<usize> {
        if let Some(p) = &self.plan {
            if p.tick(&self.name, "write") {
                return Err(p.io_err());
            }
        }
        let mut g = self.shared.lock().unwrap();
        g.writes += 1;
        if buf.is_empty() {
            return Ok(0);
        }
        match self.split.decide(buf.len()) {
            Decision::Interrupt => {
                g.interrupts += 1;
                Err(interrupted())
            }
            Decision::Accept(n) => {
                if n < buf.len() {
                    g.partial += 1;
                }
                g.bytes.extend_from_slice(&buf[..n]);
                if g.keep_cuts {
                    let l = g.bytes.len();
                    g.cuts.push(l);
                }
                Ok(n)
            }
        }
    }
    /// A sink may implement vectored writes itself: the same schedule then decides how many bytes
    /// of the *concatenation* of the buffers are accepted (possibly crossing buffer boundaries).
    fn write_vectored(&mut self, bufs: &[io::IoSlice<'_>]) -> io::Result<usize> {
        if let Some(p) = &self.plan {
            if p.tick(&self.name, "write") {
                return Err(p.io_err());
            }
        }
        let total: usize = bufs.iter().map(|b| b.len()).sum();
        let mut g = self.shared.lock().unwrap();
        g.writes += 1;
        g.vectored_writes += 1;
        if total == 0 {
            return Ok(0);
        }
        match self.split.decide(total) {
            Decision::Interrupt => {
                g.interrupts += 1;
                Err(interrupted())
            }
            Decision::Accept(n) => {
                if n < total {
                    g.partial += 1;
                }
                let mut left = n;
                for b in bufs {
                    let take = left.min(b.len());
                    g.bytes.extend_from_slice(&b[..take]);
                    left -= take;
                    if left == 0 {
                        break;
                    }
                }
                if g.keep_cuts {
                    let l = g.bytes.len();
                    g.cuts.push(l);
                }
                Ok(n)
            }
        }
    }
    fn flush(&mut self) -> io::Result<()> {
        if let Some(p) = &self.plan {
            if p.tick(&self.name, "flush") {
                return Err(p.io_err());
            }
        }
        let mut g = self.shared.lock().unwrap();
        g.flushes += 1;
        g.committed = g.bytes.len();
        Ok(())
    }
}

impl SinkShared {
    /// The bytes a reader of the sink's destination would see: everything for an ordinary sink,
    /// only what was flushed for a sink that commits on flush.
    pub fn durable(&self) -> &[u8] {
        if self.commit_on_flush {
            &self.bytes[..self.committed]
        } else {
            &self.bytes
        }
    }
}

// ------------------------------------------------------------------ source

#[derive(Default)]
pub struct SrcLog {
    /// `(position, bytes wanted, bytes served)` of each successful read since the last drain.
    pub reads: Vec<(u64, usize, usize)>,
    pub n_reads: u64,
    pub n_seeks: u64,
    pub n_interrupts: u64,
    pub n_short: u64,
    pub keep: bool,
}

#[derive(Clone)]
pub struct MonSource {
    data: Arc<Vec<u8>>,
    pos: u64,
    split: SplitState,
    plan: Option<Arc<Plan>>,
    pub log: Arc<Mutex<SrcLog>>,
    name: String,
}

impl MonSource {
    pub fn new(name: &str, data: Arc<Vec<u8>>, split: SplitState, plan: Option<Arc<Plan>>) -> MonSource {
        MonSource { data, pos: 0, split, plan, log: Arc::new(Mutex::new(SrcLog::default())), name: name.to_string() }
    }
    pub fn plain(data: Arc<Vec<u8>>) -> MonSource {
        MonSource::new("source", data, SplitState::full(), None)
    }
    pub fn logging(data: Arc<Vec<u8>>) -> MonSource {
        let s = MonSource::plain(data);
        s.log.lock().unwrap().keep = true;
        s
    }
}

fn seek_pos(len: u64, pos: u64, from: SeekFrom) -> io::Result<u64> {
    let (base, off) = match from {
        SeekFrom::Start(n) => return Ok(n),
        SeekFrom::End(n) => (len, n),
        SeekFrom::Current(n) => (pos, n),
    };
    match base.checked_add_signed(off) {
        Some(n) => Ok(n),
        None => Err(io::Error::new(ErrorKind::InvalidInput, "invalid seek to a negative or overflowing position")),
    }
}

impl Read for MonSource {
    fn read(&mut self, buf: &mut [u8]) -> io::Result<usize> {
        if let Some(p) = &self.plan {
            if p.tick(&self.name, "read") {
                return Err(p.io_err());
            }
        }
        let mut log = self.log.lock().unwrap();
        log.n_reads += 1;
        let start = (self.pos.min(self.data.len() as u64)) as usize;
        let avail = self.data.len() - start;
        let want = buf.len().min(avail);
        if want == 0 {
            if log.keep {
                log.reads.push((self.pos, buf.len(), 0));
            }
            return Ok(0);
        }
        match self.split.decide(want) {
            Decision::Interrupt => {
                log.n_interrupts += 1;
                Err(interrupted())
            }
            Decision::Accept(n) => {
                if n < want {
                    log.n_short += 1;
                }
                buf[..n].copy_from_slice(&self.data[start..start + n]);
                if log.keep {
                    log.reads.push((self.pos, buf.len(), n));
                }
                self.pos += n as u64;
                Ok(n)
            }
        }
    }
}

impl Seek for MonSource {
    fn seek(&mut self, from: SeekFrom) -> io::Result<u64> {
        if let Some(p) = &self.plan {
            if p.tick(&self.name, "seek") {
                return Err(p.io_err());
            }
        }
        self.log.lock().unwrap().n_seeks += 1;
        let n = seek_pos(self.data.len() as u64, self.pos, from)?;
        self.pos = n;
        Ok(n)
    }
}

// ------------------------------------------------------------------ chunk storage

#[derive(Default)]
pub struct ChunkStats {
    pub created: u64,
    pub dropped: u64,
    pub max_live: u64,
    pub reads: u64,
    pub writes: u64,
    pub seeks: u64,
    pub flushes: u64,
    pub interrupts: u64,
    pub shorts: u64,
    /// (event, live chunks after it)
    pub events: Vec<(&'static str, u64)>,
    /// Total bytes written to chunks.
    pub bytes_written: u64,
}

impl ChunkStats {
    pub fn live(&self) -> u64 {
        self.created - self.dropped
    }
}

pub struct MonChunk {
    data: Vec<u8>,
    pos: u64,
    rsplit: SplitState,
    wsplit: SplitState,
    plan: Option<Arc<Plan>>,
    stats: Arc<Mutex<ChunkStats>>,
    name: String,
}

impl MonChunk {
    /// The bytes currently stored in this chunk.
    pub fn data(&self) -> &[u8] {
        &self.data
    }
}

impl Write for MonChunk {
    fn write_vectored(&mut self, bufs: &[io::IoSlice<'_>]) -> io::Result<usize> {
        // vectored writes are served as one write of the concatenation, under the same schedule
        let all: Vec<u8> = bufs.iter().flat_map(|b| b.iter().copied()).collect();
        self.write(&all)
    }
    fn write(&mut self, buf: &[u8]) -> io::Result<usize> {
        if let Some(p) = &self.plan {
            if p.tick(&self.name, "write") {
                return Err(p.io_err());
            }
        }
        let mut st = self.stats.lock().unwrap();
        st.writes += 1;
        if buf.is_empty() {
            return Ok(0);
        }
        match self.wsplit.decide(buf.len()) {
            Decision::Interrupt => {
                st.interrupts += 1;
                Err(interrupted())
            }
            Decision::Accept(n) => {
                if n < buf.len() {
                    st.shorts += 1;
                }
                let pos = self.pos as usize;
                if pos > self.data.len() {
                    self.data.resize(pos, 0);
                }
                let overlap = (self.data.len() - pos).min(n);
                self.data[pos..pos + overlap].copy_from_slice(&buf[..overlap]);
                self.data.extend_from_slice(&buf[overlap..n]);
                self.pos += n as u64;
                st.bytes_written += n as u64;
                Ok(n)
            }
        }
    }
    fn flush(&mut self) -> io::Result<()> {
        if let Some(p) = &self.plan {
            if p.tick(&self.name, "flush") {
                return Err(p.io_err());
            }
        }
        self.stats.lock().unwrap().flushes += 1;
        Ok(())
    }
}

impl Read for MonChunk {
    fn read(&mut self, buf: &mut [u8]) -> io::Result<usize> {
        if let Some(p) = &self.plan {
            if p.tick(&self.name, "read") {
                return Err(p.io_err());
            }
        }
        let mut st = self.stats.lock().unwrap();
        st.reads += 1;
        let start = (self.pos.min(self.data.len() as u64)) as usize;
        let want = buf.len().min(self.data.len() - start);
        if want == 0 {
            return Ok(0);
        }
        match self.rsplit.decide(want) {
            Decision::Interrupt => {
                st.interrupts += 1;
                Err(interrupted())
            }
            Decision::Accept(n) => {
                if n < want {
                    st.shorts += 1;
                }
                buf[..n].copy_from_slice(&self.data[start..start + n]);
                self.pos += n as u64;
                Ok(n)
            }
        }
    }
}

impl Seek for MonChunk {
    fn seek(&mut self, from: SeekFrom) -> io::Result<u64> {
        if let Some(p) = &self.plan {
            if p.tick(&self.name, "seek") {
                return Err(p.io_err());
            }
        }
        self.stats.lock().unwrap().seeks += 1;
        let n = seek_pos(self.data.len() as u64, self.pos, from)?;
        self.pos = n;
        Ok(n)
    }
}

impl Drop for MonChunk {
    fn drop(&mut self) {
        let mut st = self.stats.lock().unwrap();
        st.dropped += 1;
        let live = st.live();
        st.events.push(("drop", live));
    }
}

pub struct MonChunkCreator {
    pub stats: Arc<Mutex<ChunkStats>>,
    pub plan: Option<Arc<Plan>>,
    pub rsplit: Split,
    pub wsplit: Split,
    pub seed: u64,
    /// Called at every `create` (C08's online monitor hangs here).
    pub on_create: Option<Arc<dyn Fn(u64) + Send + Sync>>,
}

impl MonChunkCreator {
    pub fn new(plan: Option<Arc<Plan>>, rsplit: Split, wsplit: Split, seed: u64) -> MonChunkCreator {
        MonChunkCreator { stats: Arc::new(Mutex::new(ChunkStats::default())), plan, rsplit, wsplit, seed, on_create: None }
    }
}

impl grenad::ChunkCreator for MonChunkCreator {
    type Chunk = MonChunk;
    type Error = io::Error;

    fn create(&self) -> Result<MonChunk, io::Error> {
        if let Some(p) = &self.plan {
            if p.tick("creator", "create") {
                return Err(p.io_err());
            }
        }
        let (id, live) = {
            let mut st = self.stats.lock().unwrap();
            st.created += 1;
            let live = st.live();
            if live > st.max_live {
                st.max_live = live;
            }
            st.events.push(("create", live));
            (st.created, live)
        };
        if let Some(f) = &self.on_create {
            f(live);
        }
        Ok(MonChunk {
            data: Vec::new(),
            pos: 0,
            rsplit: SplitState::new(self.rsplit.clone(), self.seed ^ id.wrapping_mul(0x9E37)),
            wsplit: SplitState::new(self.wsplit.clone(), self.seed ^ id.wrapping_mul(0x7F4A)),
            plan: self.plan.clone(),
            stats: self.stats.clone(),
            name: format!("chunk#{}", id),
        })
    }
}
