//! Independent decoder of the grenad V2 (and V1) file format. Shares no code with grenad: own
//! varint, own block/trailer parsing, own tree walk; codec crates are called directly.

use std::collections::HashMap;
use std::io::Read;

pub const MAGIC_V1: u32 = 0x76324D4C;
pub const MAGIC_V2: u32 = 0x6723D4C4;

#[derive(Clone, Debug, PartialEq, Eq)]
pub struct Trailer {
    pub version: u8, // 1 or 2
    pub root_offset: u64,
    pub codec: u8,
    pub count: u64,
    pub levels: u8,
    pub size: usize, // 21 or 22
}

#[derive(Clone, Debug)]
pub struct DEntry {
    pub start: usize,
    pub key: (usize, usize),
    pub val: (usize, usize),
    pub end: usize,
}

#[derive(Clone, Debug)]
pub struct DBlock {
    pub offset: u64,
    pub stored_len: u64,
    pub raw: Vec<u8>,
    pub payload_len: usize,
    pub entries: Vec<DEntry>,
    pub offsets: Vec<u64>,
    /// 0 = root index, `levels` = deepest index level, `levels + 1` = data block.
    pub depth: Option<usize>,
}

impl DBlock {
    pub fn key(&self, i: usize) -> &[u8] {
        let (a, b) = self.entries[i].key;
        &self.raw[a..b]
    }
    pub fn val(&self, i: usize) -> &[u8] {
        let (a, b) = self.entries[i].val;
        &self.raw[a..b]
    }
    pub fn last_key(&self) -> Option<&[u8]> {
        if self.entries.is_empty() {
            None
        } else {
            Some(self.key(self.entries.len() - 1))
        }
    }
    /// Uncompressed size (payload + offsets table + count).
    pub fn size(&self) -> usize {
        self.raw.len()
    }
}

#[derive(Clone, Debug)]
pub struct DFile {
    pub trailer: Trailer,
    pub blocks: Vec<DBlock>,
    pub by_offset: HashMap<u64, usize>,
    /// Block indices of data blocks in key order.
    pub data_blocks: Vec<usize>,
    /// Block indices per index depth (0 = root), in key order.
    pub index_levels: Vec<Vec<usize>>,
    pub file_len: usize,
}

pub fn read_varint(data: &[u8]) -> Option<(u32, usize)> {
    let mut v: u64 = 0;
    for i in 0..5 {
        let b = *data.get(i)?;
        v |= ((b & 0x7f) as u64) << (7 * i);
        if b & 0x80 == 0 {
            if v > u32::MAX as u64 {
                return None;
            }
            return Some((v as u32, i + 1));
        }
    }
    None
}

/// Reference LEB128 encoder (for C14).
pub fn ref_leb128(mut n: u32) -> Vec<u8> {
    let mut out = Vec::new();
    loop {
        let b = (n & 0x7f) as u8;
        n >>= 7;
        if n == 0 {
            out.push(b);
            return out;
        }
        out.push(b | 0x80);
    }
}

/// Predicate of C13: does `bytes` end with a complete, valid trailer?
pub fn ends_with_valid_trailer(bytes: &[u8]) -> bool {
    parse_trailer(bytes).is_ok()
}

pub fn parse_trailer(bytes: &[u8]) -> Result<Trailer, String> {
    let n = bytes.len();
    if n < 4 {
        return Err("shorter than a magic number".into());
    }
    let magic = u32::from_le_bytes(bytes[n - 4..].try_into().unwrap());
    match magic {
        MAGIC_V2 => {
            if n < 22 {
                return Err("V2 magic without a full 22-byte trailer".into());
            }
            let t = &bytes[n - 22..];
            let codec = t[8];
            if codec > 5 {
                return Err(format!("unknown codec id {}", codec));
            }
            Ok(Trailer {
                version: 2,
                root_offset: u64::from_le_bytes(t[0..8].try_into().unwrap()),
                codec,
                count: u64::from_le_bytes(t[9..17].try_into().unwrap()),
                levels: t[17],
                size: 22,
            })
        }
        MAGIC_V1 => {
            if n < 21 {
                return Err("V1 magic without a full 21-byte trailer".into());
            }
            let t = &bytes[n - 21..];
            let codec = t[8];
            if codec > 5 {
                return Err(format!("unknown codec id {}", codec));
            }
            Ok(Trailer {
                version: 1,
                root_offset: u64::from_le_bytes(t[0..8].try_into().unwrap()),
                codec,
                count: u64::from_le_bytes(t[9..17].try_into().unwrap()),
                levels: 0,
                size: 21,
            })
        }
        m => Err(format!("unknown magic {:#x}", m)),
    }
}

pub fn decompress(codec: u8, data: &[u8]) -> Result<Vec<u8>, String> {
    match codec {
        0 => Ok(data.to_vec()),
        1 => snap::raw::Decoder::new().decompress_vec(data).map_err(|e| format!("snap raw: {}", e)),
        2 => {
            let mut out = Vec::new();
            flate2::read::ZlibDecoder::new(data).read_to_end(&mut out).map_err(|e| format!("zlib: {}", e))?;
            Ok(out)
        }
        3 => {
            let mut out = Vec::new();
            lz4_flex::frame::FrameDecoder::new(data).read_to_end(&mut out).map_err(|e| format!("lz4: {}", e))?;
            Ok(out)
        }
        4 => {
            #[cfg(feature = "zstd")]
            {
                zstd::stream::decode_all(data).map_err(|e| format!("zstd: {}", e))
            }
            #[cfg(not(feature = "zstd"))]
            {
                Err("zstd not compiled in".into())
            }
        }
        5 => {
            let mut out = Vec::new();
            snap::read::FrameDecoder::new(data).read_to_end(&mut out).map_err(|e| format!("snap frame: {}", e))?;
            Ok(out)
        }
        c => Err(format!("unknown codec {}", c)),
    }
}

fn parse_block(offset: u64, stored_len: u64, raw: Vec<u8>, interval_hint: Option<usize>) -> Result<DBlock, String> {
    let n = raw.len();
    if n < 12 {
        return Err(format!("block at {} has {} decompressed bytes (< 12)", offset, n));
    }
    let count = u32::from_be_bytes(raw[n - 4..].try_into().unwrap()) as usize;
    if count == 0 {
        return Err(format!("block at {}: offsets count is 0", offset));
    }
    if n < 4 + 8 * count {
        return Err(format!("block at {}: offsets table ({} entries) does not fit", offset, count));
    }
    let payload_len = n - 4 - 8 * count;
    let mut offsets = Vec::with_capacity(count);
    for i in 0..count {
        let p = payload_len + 8 * i;
        offsets.push(u64::from_be_bytes(raw[p..p + 8].try_into().unwrap()));
    }
    if offsets[0] != 0 {
        return Err(format!("block at {}: first offset is {} not 0", offset, offsets[0]));
    }
    let mut entries = Vec::new();
    let mut p = 0usize;
    while p < payload_len {
        let start = p;
        let (klen, a) = read_varint(&raw[p..payload_len]).ok_or_else(|| format!("block at {}: bad key length varint at {}", offset, p))?;
        p += a;
        let (vlen, b) = read_varint(&raw[p..payload_len]).ok_or_else(|| format!("block at {}: bad value length varint at {}", offset, p))?;
        p += b;
        let (klen, vlen) = (klen as usize, vlen as usize);
        if p + klen + vlen > payload_len {
            return Err(format!("block at {}: entry at {} overruns the payload", offset, start));
        }
        entries.push(DEntry { start, key: (p, p + klen), val: (p + klen, p + klen + vlen), end: p + klen + vlen });
        p += klen + vlen;
    }
    // offsets table: strictly increasing entry starts, one per interval
    let starts: Vec<u64> = entries.iter().map(|e| e.start as u64).collect();
    for w in offsets.windows(2) {
        if w[1] <= w[0] {
            return Err(format!("block at {}: offsets table not strictly increasing", offset));
        }
    }
    if let Some(interval) = interval_hint {
        let expect: Vec<u64> = if entries.is_empty() { vec![0] } else { starts.iter().copied().step_by(interval).collect() };
        if offsets != expect {
            return Err(format!(
                "block at {}: offsets table {:?}.. does not list one entry start per interval {} (expected {} offsets, found {})",
                offset,
                &offsets[..offsets.len().min(4)],
                interval,
                expect.len(),
                offsets.len()
            ));
        }
    } else {
        // Without a hint: infer the interval from the table and require regularity.
        for o in &offsets[1..] {
            if starts.binary_search(o).is_err() {
                return Err(format!("block at {}: offset {} is not the start of an entry", offset, o));
            }
        }
        if offsets.len() >= 2 {
            let i1 = starts.binary_search(&offsets[1]).unwrap();
            let expect: Vec<u64> = starts.iter().copied().step_by(i1).collect();
            if offsets != expect {
                return Err(format!("block at {}: offsets table is not regular (inferred interval {})", offset, i1));
            }
        }
    }
    Ok(DBlock { offset, stored_len, raw, payload_len, entries, offsets, depth: None })
}

/// Tiling and per-block parsing only (no tree walk, no ordering check).
pub fn decode_blocks(bytes: &[u8], interval_hint: Option<usize>) -> Result<(Trailer, Vec<DBlock>), String> {
    let trailer = parse_trailer(bytes)?;
    let body_end = bytes.len() - trailer.size;
    // 1. sequential tiling of [0, body_end) into length-prefixed blocks
    let mut blocks = Vec::new();
    let mut p = 0usize;
    while p < body_end {
        if p + 8 > body_end {
            return Err(format!("dangling bytes at {} before the trailer", p));
        }
        let len = u64::from_be_bytes(bytes[p..p + 8].try_into().unwrap());
        if len > (body_end - p - 8) as u64 {
            return Err(format!("block at {}: stored length {} overruns the file", p, len));
        }
        let data = &bytes[p + 8..p + 8 + len as usize];
        let raw = decompress(trailer.codec, data).map_err(|e| format!("block at {}: {}", p, e))?;
        let block = parse_block(p as u64, len, raw, interval_hint)?;
        blocks.push(block);
        p += 8 + len as usize;
    }
    if blocks.is_empty() {
        return Err("no block at all (not even a root index block)".into());
    }
    Ok((trailer, blocks))
}

/// Index (within the block) of the first entry whose key is not strictly greater than its
/// predecessor, if any.
pub fn first_unsorted(b: &DBlock) -> Option<usize> {
    (1..b.entries.len()).find(|&i| b.key(i - 1) >= b.key(i))
}

/// Decodes a complete file and checks every structural sentence of the format.
/// `interval_hint`: the configured in-block index interval when known.
pub fn decode(bytes: &[u8], interval_hint: Option<usize>) -> Result<DFile, String> {
    let (trailer, mut blocks) = decode_blocks(bytes, interval_hint)?;
    let mut by_offset = HashMap::new();
    for (i, b) in blocks.iter().enumerate() {
        by_offset.insert(b.offset, i);
    }
    // 2. root is the last block
    let root_idx = *by_offset.get(&trailer.root_offset).ok_or_else(|| format!("root offset {} is not a block start", trailer.root_offset))?;
    if root_idx != blocks.len() - 1 {
        return Err(format!("root index block at {} is not the last block", trailer.root_offset));
    }
    // 3. tree walk
    let levels = trailer.levels as usize;
    let mut index_levels: Vec<Vec<usize>> = vec![Vec::new(); levels + 1];
    let mut data_blocks = Vec::new();
    let mut frontier = vec![root_idx];
    blocks[root_idx].depth = Some(0);
    for depth in 0..=levels {
        let mut next = Vec::new();
        for &bi in &frontier {
            index_levels[depth].push(bi);
            let n = blocks[bi].entries.len();
            for ei in 0..n {
                let v = blocks[bi].val(ei);
                if v.len() != 8 {
                    return Err(format!("index block at {} (depth {}): value of entry {} is {} bytes, not a u64 offset", blocks[bi].offset, depth, ei, v.len()));
                }
                let off = u64::from_be_bytes(v.try_into().unwrap());
                let ci = *by_offset.get(&off).ok_or_else(|| format!("index block at {} (depth {}): child offset {} is not a block start", blocks[bi].offset, depth, off))?;
                if blocks[ci].depth.is_some() {
                    return Err(format!("block at {} is referenced twice", off));
                }
                blocks[ci].depth = Some(depth + 1);
                let child_last = blocks[ci].last_key().ok_or_else(|| format!("child block at {} is empty", off))?.to_vec();
                if blocks[bi].key(ei) != &child_last[..] {
                    return Err(format!("index block at {} (depth {}): key of entry {} is not the last key of child block at {}", blocks[bi].offset, depth, ei, off));
                }
                next.push(ci);
            }
        }
        if depth == levels {
            data_blocks = next;
            break;
        }
        frontier = next;
    }
    if let Some(b) = blocks.iter().find(|b| b.depth.is_none()) {
        return Err(format!("block at {} is not reachable from the root", b.offset));
    }
    // 4. keys strictly ascending inside every block and across data blocks and index levels
    for b in &blocks {
        for i in 1..b.entries.len() {
            if b.key(i - 1) >= b.key(i) {
                return Err(format!("block at {} (depth {:?}): keys not strictly ascending at entry {}", b.offset, b.depth, i));
            }
        }
    }
    let file = DFile { trailer, blocks, by_offset, data_blocks, index_levels, file_len: bytes.len() };
    let mut prev: Option<&[u8]> = None;
    let mut count = 0u64;
    let mut prev_off = None;
    for &bi in &file.data_blocks {
        let b = &file.blocks[bi];
        if let Some(po) = prev_off {
            if b.offset <= po {
                return Err("data blocks are not laid out in key order".into());
            }
        }
        prev_off = Some(b.offset);
        for i in 0..b.entries.len() {
            if let Some(pk) = prev {
                if pk >= b.key(i) {
                    return Err(format!("data block at {}: key order broken across blocks at entry {}", b.offset, i));
                }
            }
            prev = Some(b.key(i));
            count += 1;
        }
    }
    if count != file.trailer.count {
        return Err(format!("trailer says {} entries, data blocks hold {}", file.trailer.count, count));
    }
    Ok(file)
}

impl DFile {
    pub fn entries(&self) -> Vec<(Vec<u8>, Vec<u8>)> {
        let mut out = Vec::new();
        for &bi in &self.data_blocks {
            let b = &self.blocks[bi];
            for i in 0..b.entries.len() {
                out.push((b.key(i).to_vec(), b.val(i).to_vec()));
            }
        }
        out
    }

    /// For each data block (in key order): index of its first entry in the global entry list.
    pub fn data_block_first_entry(&self) -> Vec<usize> {
        let mut out = Vec::new();
        let mut n = 0;
        for &bi in &self.data_blocks {
            out.push(n);
            n += self.blocks[bi].entries.len();
        }
        out
    }

    pub fn blocks_at_depth(&self, depth: usize) -> usize {
        self.blocks.iter().filter(|b| b.depth == Some(depth)).count()
    }

    /// Largest number of blocks found at an index depth >= 2.
    pub fn max_deep_index_blocks(&self) -> usize {
        (2..self.index_levels.len()).map(|d| self.index_levels[d].len()).max().unwrap_or(0)
    }

    pub fn layout_class(&self) -> String {
        fn bucket(n: usize) -> &'static str {
            match n {
                0 => "0",
                1 => "1",
                2 => "2",
                3..=9 => "3-9",
                _ => "10+",
            }
        }
        let lv = self.trailer.levels;
        let lvb = match lv {
            0..=4 => lv.to_string(),
            5..=16 => "5-16".into(),
            17..=254 => "17-254".into(),
            _ => "255".into(),
        };
        format!("levels={} data={} deep_index={}", lvb, bucket(self.data_blocks.len()), bucket(self.max_deep_index_blocks()))
    }

    /// Number of entries (global index ranges) covered by each block at `depth` (index blocks).
    /// Returns, for each block at that depth in key order, the global index of the first entry
    /// under it.
    pub fn first_entry_under_index_blocks(&self, depth: usize) -> Vec<usize> {
        // Count entries under each block by walking down.
        fn count_under(f: &DFile, bi: usize) -> usize {
            let b = &f.blocks[bi];
            let levels = f.trailer.levels as usize;
            if b.depth == Some(levels + 1) {
                return b.entries.len();
            }
            let mut n = 0;
            for ei in 0..b.entries.len() {
                let off = u64::from_be_bytes(b.val(ei).try_into().unwrap());
                n += count_under(f, f.by_offset[&off]);
            }
            n
        }
        let mut out = Vec::new();
        let mut n = 0;
        if depth >= self.index_levels.len() {
            return out;
        }
        for &bi in &self.index_levels[depth] {
            out.push(n);
            n += count_under(self, bi);
        }
        out
    }
}
