//! Monitored merge functions: every call is logged `(key, values, result)`.

use std::borrow::Cow;
use std::fmt;
use std::sync::{Arc, Mutex};

use crate::io_mon::Plan;

#[derive(Clone, Copy, Debug, PartialEq, Eq)]
pub enum MergeKind {
    /// Concatenation: associative, lone value unchanged, reveals argument order.
    Concat,
    /// Returns the first value borrowed.
    First,
    /// Returns the last value borrowed.
    Last,
    /// Byte-wise minimum (commutative, associative, lone preserving).
    Min,
    Max,
    /// Wrapping sum of little-endian u64 prefixes... values must be 8 bytes (else concat).
    Sum,
    /// Injective length-prefixed encoding of (key, values): NOT lone preserving.
    Inject,
    /// Depends on the key: byte-wise minimum for keys with an even byte sum, maximum otherwise
    /// (associative, commutative, lone preserving).
    KeyedMinMax,
}

impl MergeKind {
    pub fn lone_preserving(self) -> bool {
        !matches!(self, MergeKind::Inject)
    }
    pub fn name(self) -> &'static str {
        match self {
            MergeKind::Concat => "concat",
            MergeKind::First => "first",
            MergeKind::Last => "last",
            MergeKind::Min => "min",
            MergeKind::Max => "max",
            MergeKind::Sum => "wrapping-sum",
            MergeKind::Inject => "inject",
            MergeKind::KeyedMinMax => "min-or-max-by-key",
        }
    }
    /// Pure reference evaluation.
    pub fn apply(self, key: &[u8], values: &[Vec<u8>]) -> Vec<u8> {
        match self {
            MergeKind::Concat => values.concat(),
            MergeKind::First => values[0].clone(),
            MergeKind::Last => values[values.len() - 1].clone(),
            MergeKind::Min => values.iter().min().unwrap().clone(),
            MergeKind::Max => values.iter().max().unwrap().clone(),
            MergeKind::KeyedMinMax => {
                let even = key.iter().fold(0u32, |a, b| a + *b as u32) % 2 == 0;
                if even {
                    values.iter().min().unwrap().clone()
                } else {
                    values.iter().max().unwrap().clone()
                }
            }
            MergeKind::Sum => {
                if values.len() == 1 {
                    return values[0].clone();
                }
                let mut s = 0u64;
                for v in values {
                    let mut b = [0u8; 8];
                    let n = v.len().min(8);
                    b[..n].copy_from_slice(&v[..n]);
                    s = s.wrapping_add(u64::from_le_bytes(b));
                }
                s.to_le_bytes().to_vec()
            }
            MergeKind::Inject => {
                let mut out = vec![b'M'];
                out.extend_from_slice(&(key.len() as u32).to_le_bytes());
                out.extend_from_slice(key);
                out.extend_from_slice(&(values.len() as u32).to_le_bytes());
                for v in values {
                    out.extend_from_slice(&(v.len() as u32).to_le_bytes());
                    out.extend_from_slice(v);
                }
                out
            }
        }
    }
}

#[derive(Debug, Clone, PartialEq, Eq)]
pub struct MergeErr(pub u64);

impl fmt::Display for MergeErr {
    fn fmt(&self, f: &mut fmt::Formatter<'_>) -> fmt::Result {
        write!(f, "verif-injected-merge-failure-{}", self.0)
    }
}
impl std::error::Error for MergeErr {}

#[derive(Clone, Debug)]
pub struct MergeCall {
    pub key: Vec<u8>,
    pub values: Vec<Vec<u8>>,
    pub result: Vec<u8>,
    pub borrowed: bool,
}

#[derive(Clone)]
pub struct MonMerge {
    pub kind: MergeKind,
    pub log: Arc<Mutex<Vec<MergeCall>>>,
    pub plan: Option<Arc<Plan>>,
    pub keep_log: bool,
}

impl MonMerge {
    pub fn new(kind: MergeKind) -> MonMerge {
        MonMerge { kind, log: Arc::new(Mutex::new(Vec::new())), plan: None, keep_log: true }
    }
    pub fn with_plan(kind: MergeKind, plan: Option<Arc<Plan>>) -> MonMerge {
        MonMerge { kind, log: Arc::new(Mutex::new(Vec::new())), plan, keep_log: false }
    }
}

impl grenad::MergeFunction for MonMerge {
    type Error = MergeErr;

    fn merge<'a>(&self, key: &[u8], values: &[Cow<'a, [u8]>]) -> Result<Cow<'a, [u8]>, MergeErr> {
        if let Some(p) = &self.plan {
            if p.tick("merge", "merge") {
                return Err(MergeErr(p.fail_at));
            }
        }
        let (result, borrowed): (Cow<'a, [u8]>, bool) = match self.kind {
            MergeKind::First => (values[0].clone(), true),
            MergeKind::Last => (values[values.len() - 1].clone(), true),
            kind => {
                let owned: Vec<Vec<u8>> = values.iter().map(|v| v.to_vec()).collect();
                (Cow::Owned(kind.apply(key, &owned)), false)
            }
        };
        if self.keep_log {
            self.log.lock().unwrap().push(MergeCall {
                key: key.to_vec(),
                values: values.iter().map(|v| v.to_vec()).collect(),
                result: result.to_vec(),
                borrowed,
            });
        }
        Ok(result)
    }
}

/// The same functions for the frozen grenad 0.4.7 (different trait, same semantics) are not
/// needed: 0.4.7 is only used as a writer/reader.
pub fn _unused() {}
