#!/usr/bin/env python3
"""Regenerates /verif/MANIFEST.json from the table below (kept next to the checks so that the
manifest, the driver and DESIGN.md stay consistent)."""
import json
import os
import subprocess

VERIF = os.path.dirname(os.path.dirname(os.path.abspath(__file__)))

def repo_commits():
    out = subprocess.run(["git", "-C", "/repo", "log", "--format=%h %s"], stdout=subprocess.PIPE, text=True).stdout
    return [l.split()[0] for l in out.splitlines() if l.split(" ", 1)[1].startswith("verif hook")]

CHECKS = {
 "C01": ("exploration", "4.C01", "model-based round-trip oracle over generated writer configurations and entry lists (runtime monitoring of the real Writer/Reader; builds: overflow/debug-checked, thorough also plain release)",
         "Every generated (configuration, ascending entry list) is written by the real writer and read back (count, codec, version, forward scan, backward scan on a fresh cursor) and compared entry by entry with the inserted list; a panic or error on valid input is a violation. Exploration is the right level: the domain (all byte strings x 5 configuration axes) is unbounded and the oracle needs no per-input expectation.",
         "Trusted: the harness's generators and comparison code. Compression levels restricted to each codec's documented range. Sizes bounded by time/RAM."),
 "C02": ("exploration", "4.C02", "reference-model oracle (partition_point on the sorted list) over equivalence-class probe sets, on brand-new and reset cursors",
         "GE/LE/EQ for a probe set covering every equivalence class (stored keys, each gap via immediate successors/predecessors, prefixes/extensions, empty, extremes) per generated file, all index depths and block layouts, compared with binary search on the entry list.",
         "Files come from the real writer; probes are sampled above 40/400 stored keys per file."),
 "C03": ("exploration", "4.C03", "model-based history checking: generated cursor operation histories (with clones, resets, layout-steered scans, novelty steering on hooked cursor state) judged online against a logical-position model",
         "Every operation of generated histories over up to 3 cursors is compared with the reference position model Fresh|At(i)|Unspecified; absolute moves are judged in every state (history independence), relative moves from determined positions; structured histories first,first,next^k,X target stale-cache states.",
         "Relative moves and current after a None are executed but not judged (the property leaves them unspecified). States reached are those of generated histories."),
 "C04": ("exploration", "4.C04", "reference-model oracle (filter of the sorted list) over bound pairs in {Unbounded,Included,Excluded}^2 for forward and reverse range iterators",
         "All 9 bound-kind pairs with present/absent/equal/inverted/block-edge byte strings per generated file; both iterators drained to the first None and compared with the filtered entry list.",
         "Nothing is asserted after an iterator's first None."),
 "C05": ("exploration", "4.C05", "reference-model oracle (starts_with filter) over prefix classes for forward and reverse prefix iterators",
         "Prefixes of every class (empty, stored key, key+byte, 0xFF-ending, all-0xFF, successor-is-stored-key, no-match) per generated file; completeness and order compared with the filtered entry list.",
         "Nothing is asserted after an iterator's first None."),
 "C06": ("exploration", "4.C06", "offline checker over the recorded merge-function call log (exactly-once, argument order) plus reference model of the key union; unique value tokens make the history unambiguous",
         "k in 0..=8 sources with overlap patterns and per-source writer configurations; the monitored merge function logs every call; the checker requires ascending union keys, exactly one call per multi-source key with values in source order, lone values unchanged, and the written file equal to the streamed content.",
         "Merge functions used are deterministic; for lone keys the number of merge calls is not constrained."),
 "C07": ("exploration", "4.C07", "three-route differential + reference model (BTreeMap of insert-ordered values with sequence-numbered tokens) over generated sorter configurations; spills/merges/reallocations observed through hooks",
         "The same insert sequence is drained by the three output routes under hook-scaled budgets (0..50 spills, chunk merges, reallocations, oversized entries), stable/unstable, sequential/parallel, three chunk storages, plus real 10 MiB-threshold runs; outputs compared with the fold of the model.",
         "Merge functions are associative and lone-preserving as the property assumes. rayon schedules are sampled (thread counts, oversubscription; TSan in thorough), not controlled."),
 "C08": ("exploration", "4.C08", "online monitor over insert/create/drop events of a monitored chunk creator (conservation of unspilled volume, live-chunk count) plus hook H3 spill detection",
         "Running sum of bytes inserted since the last create must stay <= 2T (T without reallocation), live chunks <= max_nb_chunks+2 at every create, and every buffer emptying must coincide with a create on the supplied creator; 20-200 x T inserted with entries <= T/4, real 10 MiB runs included.",
         "Entry size <= T/4; initial capacity <= T. max_nb_chunks(0) is read as its effective value 1. Heap high-water is not judged."),
 "C09": ("exploration", "4.C09", "independent format decoder (own varint/block/trailer/tree-walk code) + differential testing against the frozen grenad 0.4.7 reader and writer",
         "Every structural sentence of the property is checked by a decoder sharing no code with grenad; the 0.4.7 reader must recover current files and the current reader 0.4.7 files, for all six codecs.",
         "Codec crates are shared between library, decoder and 0.4.7. The decoder itself is trusted (validated against 0.4.7 output)."),
 "C10": ("exploration", "4.C10", "reference-model oracle on harness-constructed V1 files (hand-encoded 21-byte trailer over a single-level index)",
         "Open (version, count, codec), scans, seeks, range and prefix queries on V1-trailer files compared with the model, all codecs/block sizes/intervals.",
         "No historical V1 writer is available offline; the V1 body is taken to be the V2 body with index_levels=0, as the property states."),
 "C11": ("exploration", "4.C11", "differential monitoring under per-call I/O schedules (partial writes/reads, bounded Interrupted runs) on instrumented sinks, sources and chunk storage",
         "Writer byte streams must equal the whole-buffer run under every sink schedule (and across repeated runs); reader, iterator, merger and sorter results must equal the models under every source/chunk schedule, all six codecs x {short, interrupt}.",
         "Ok(0) on a non-empty buffer is never scheduled; interruptions are runs of at most 3."),
 "C12": ("fault_enumeration", "4.C12", "single-fault enumeration: the k-th call to a user component (write/flush/read/seek/create/merge) fails with a tagged error, for every k of a traced fault-free run and each error kind",
         "For every scenario the public call in progress must return Err of the right variant carrying the tag; never panic, never Ok, not from a later call; the fault-free run must report no error. All k are enumerated when N <= cap, otherwise every (component op, public call) class plus random k.",
         "Single faults only; behaviour after the first Err is not examined; Interrupted is not a failure."),
 "C13": ("fault_enumeration", "4.C13", "crash-point enumeration: every truncation length and every trailer byte substitution of finished files (plus writer sink contents after each write call) opened and compared with the harness's own trailer predicate",
         "Reader::new must not panic and must succeed exactly when the bytes end with a complete valid trailer; every truncation length of every generated file, all 256 values at each of the last 22 positions, V1 trailers, magic-fragment strings, all strings of length <= 2.",
         "The predicate is the harness's reading of 'complete trailer': known magic, full metadata record of that version, codec id <= 5."),
 "C14": ("exploration", "4.C14", "exhaustive sweep of all 2^32 lengths through the real length codec (hook H1, release build) plus API-level entries at every framing boundary",
         "All 2^32 values: encoded into 1..=5 bytes, decoded back to the same value consuming exactly the encoded bytes (two trailing-byte contexts); entries with key/value lengths at 0,1,127,128,16383,16384,2^21-1,2^21 (thorough 2^28-1, 2^28) round-trip through files of every codec.",
         "Entries of 2^32-1 bytes are not written through the API; that end is covered at codec level only."),
 "C15": ("exploration", "4.C15", "invariant check on every emitted block using the independent decoder's per-block sizes and depths",
         "For each data block and index block at depth >= 2: size without its final entry < B, and size >= B unless last of its level, B = max(configured,1024); workloads aim entry sizes at B.",
         "Depth-0/1 blocks are measured, never judged. Files must be decodable (C09)."),
 "C16": ("exploration", "4.C16", "online checker over the read trace of a monitored source, windowed per public call (block loads counted at block start offsets from the independent decoder)",
         "Reader::new reads only the final 22 bytes (<= 44 bytes); each cursor operation loads <= 2 x (levels+2) blocks and reads no more bytes than those blocks hold plus a fixed 64 KiB read-ahead allowance per load, along generated histories on files up to 4x10^5 (thorough 2x10^6) entries, every codec, and levels 0..255.",
         "A load is a read starting at a block's first byte."),
 "C17": ("exploration", "4.C17", "sanitizers and UB interpreter: instrumented global allocator (guard bands, layout check at dealloc, poisoning, leak accounting), Miri (default and tree borrows), ASan/LSan, TSan, valgrind memcheck, overflow-checked build, all over a buffer-state-steered workload with model comparison",
         "Insert sizes chosen from the live buffer state to fill it exactly / miss by one / exceed it, both reallocation policies, spills, merges, three routes; reader/merger paths with every borrowed slice fully read before the next call. quick = guard allocator + 16 Miri processes; thorough adds tree borrows, 64 Miri processes, ASan, TSan, valgrind.",
         "Sanitizers see only executed paths; red-zone tools miss far/intra-object accesses; Miri runs are small (no zstd: no C FFI under Miri)."),
 "C18": ("exploration", "4.C18", "perturbed-sequence workload against the real writer in release and checked builds; outcome classified (panic point vs independent per-block order check)",
         "Each sequence must either panic (justified only by a non-ascending prefix) or yield a file all of whose blocks are strictly ascending per the independent decoder; perturbations aimed at block starts; both plain release and debug-assertion builds.",
         "A panicking writer is abandoned (dropped), never reused."),
}

def main():
    checks = []
    for pid, (cat, ref, tech, text, note) in CHECKS.items():
        checks.append({
            "property_id": pid,
            "quick_cmd": "./check %s quick" % pid,
            "thorough_cmd": "./check %s thorough" % pid,
            "evidence_file": "/verif/evidence/%s.json" % pid,
            "replay_cmd_template": "./check --replay {path}",
            "engine": "vh",
            "level_claimed": {"category": cat, "text": text, "design_ref": "DESIGN.md section " + ref},
            "level_note": note,
            "technique": tech,
        })
    m = {
        "version": 1,
        "setup_cmd": "./check --setup",
        "hooks": {
            "guard": "cargo feature `verif` of grenad (off by default)",
            "enable": "the harness depends on grenad by path (/repo or $VERIF_REPO) with features [snappy, zlib, lz4, zstd, tempfile, rayon, verif]; ./check renders the manifest and rebuilds through cargo's fingerprints",
            "baseline_off_cmd": "cd /repo && cargo test --workspace --no-fail-fast --offline",
            "source_commits": repo_commits(),
            "add_only": True,
        },
        "engines": [{
            "name": "vh",
            "path": "/verif/harness",
            "serves_properties": sorted(CHECKS.keys()),
            "kind_free_text": "Rust harness binary (monitored sinks/sources/chunk storage/merge functions, reference models, independent decoder, instrumented allocator) driven by /verif/check; runs under plain release, overflow/debug-checked, guard-allocator, Miri, ASan, TSan and valgrind builds",
        }],
        "checks": checks,
        "not_applicable": [],
        "notes": "Technique family: runtime monitoring and sanitizers. Exit codes: 0 held, 1 violation (VIOLATION line + replay file), 2 inconclusive (never folded into the others). Known findings: /verif/KNOWN_FINDINGS.txt (four genuine defects, all repaired by fix: commits in /repo). Self-validation: mutants/RESULTS.md, seeded/MATRIX.md (155 independently seeded breaking changes, all caught; 48 property-preserving changes). VERIF_SEED seeds the random part of every workload; VERIF_SCALE (percent) scales it.",
    }
    with open(os.path.join(VERIF, "MANIFEST.json"), "w") as f:
        json.dump(m, f, indent=1)
    print("wrote MANIFEST.json with", len(checks), "checks; hook commits:", m["hooks"]["source_commits"])

if __name__ == "__main__":
    main()
