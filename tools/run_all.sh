#!/bin/bash
# usage: tools/run_all.sh <quick|thorough> [seed] [ids...]   -> one summary line per check
tier=${1:-quick}; seed=${2:-1}; shift 2 2>/dev/null
ids=${@:-C01 C02 C03 C04 C05 C06 C07 C08 C09 C10 C11 C12 C13 C14 C15 C16 C17 C18}
cd "$(dirname "$0")/.."
mkdir -p target/logs
for c in $ids; do
  t0=$(date +%s)
  VERIF_SEED=$seed ./check $c $tier > target/logs/$c-$tier-$seed.log 2>&1; code=$?
  t1=$(date +%s)
  echo "$c $tier seed=$seed exit=$code wall=$((t1-t0))s $(grep -c '^VIOLATION' target/logs/$c-$tier-$seed.log) violations $(grep -c '^INCONCLUSIVE' target/logs/$c-$tier-$seed.log) inconclusive"
done
