#!/usr/bin/env python3
"""Regenerates the seeded-change catch matrix (seeded/MATRIX.md) and splices it into DESIGN.md
between the <!-- MATRIX --> markers."""
import glob
import json
import os

VERIF = os.path.dirname(os.path.dirname(os.path.abspath(__file__)))
rows = []
for mp in sorted(glob.glob(os.path.join(VERIF, "seeded", "*", "meta.json"))):
    m = json.load(open(mp))
    name = os.path.basename(os.path.dirname(mp))
    res = m.get("check_results", {})
    cell = "; ".join("%s: %s" % (c, "VIOLATION (" + ", ".join(r["signatures"][:3]) + ")" if r["exit"] == 1 else "exit %d" % r["exit"]) for c, r in res.items())
    rows.append("| %s | %s | %s | %s | %s |" % (name, m.get("breaks", ""), m.get("needs_to_manifest", ""), cell, m.get("history", "")))
table = ["| seeded change | what it breaks | needs, to manifest | checks run (quick tier) and outcome | history |", "|---|---|---|---|---|"] + rows
text = "\n".join(table) + "\n"
open(os.path.join(VERIF, "seeded", "MATRIX.md"), "w").write("# Seeded changes: catch matrix\n\n" + text)
dp = os.path.join(VERIF, "DESIGN.md")
s = open(dp).read()
a, b = "<!-- MATRIX -->", "<!-- /MATRIX -->"
if a in s and b in s:
    s = s[: s.index(a) + len(a)] + "\n" + text + s[s.index(b):]
    open(dp, "w").write(s)
print(len(rows), "rows")
